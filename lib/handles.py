"""C14 stream: sequences of handle calls on one file, run on STFS and on the reference (afero OsFs)."""
import base64, collections, json, random, subprocess
from concurrent.futures import ThreadPoolExecutor
import hist, streams
from vlib import *

FLAGSETS = [0, 1, 2, 2 | hist.O_APPEND, 1 | hist.O_APPEND, 2 | hist.O_TRUNC, 1 | hist.O_TRUNC, 2 | hist.O_CREATE, 1 | hist.O_CREATE | hist.O_TRUNC,
            2 | hist.O_CREATE | hist.O_EXCL, 1 | hist.O_APPEND | hist.O_TRUNC]


def pat(seed, off, n):
    """the same byte pattern as stfsdrv's pattern()"""
    x = (seed * 2654435761 + 12345) & 0xFFFFFFFF
    out = bytearray()
    for i in range(off + n):
        x = (x * 1664525 + 1013904223) & 0xFFFFFFFF
        if i >= off:
            out.append(x >> 24)
    return bytes(out)


def handle_history(rng, rs, cache, nops, size0):
    blobs = [{"seed": 1, "len": size0}]
    calls = [{"op": "initialize"}]
    exists = rng.random() < 0.85
    if exists:
        calls.append({"op": "createfile", "name": "/f", "blob": 0})
    fl = rng.choice(FLAGSETS)
    calls.append({"op": "open", "h": "a", "name": "/f", "flags": fl, "perm": 0o644})
    nb = 1
    offs = sorted(set([0, 1, size0 // 2, max(size0 - 1, 0), size0, size0 + 1, size0 + 700, 511, 512, 513]))
    for _ in range(nops):
        k = rng.choice(["read"] * 4 + ["readat"] * 2 + ["seek"] * 4 + ["write"] * 4 + ["writeat"] * 2 + ["writestring", "truncate", "truncate", "sync", "hstat", "hstat"])
        c = {"op": k, "h": "a"}
        if k in ("read", "readat"):
            c["n"] = rng.choice([1, 3, 100, 512, 700, 5000])
            if k == "readat":
                c["off"] = rng.choice(offs)
        elif k == "seek":
            w = rng.choice([0, 0, 1, 1, 2, 2])
            c["whence"] = w
            c["off"] = rng.choice(offs) if w == 0 else rng.choice([0, 1, -1, 5, -5, 100, -100, size0, -size0, -size0 - 3])
        elif k in ("write", "writeat", "writestring"):
            nb += 1
            n = rng.choice([0, 1, 4, 100, 600])
            c["data"] = base64.b64encode(pat(nb, 0, n)).decode()
            blobs.append({"seed": nb, "len": n})
            if k == "writeat":
                if fl & hist.O_APPEND:
                    c["op"] = "write"      # os.File refuses WriteAt on O_APPEND handles: outside the reference's domain
                else:
                    c["off"] = rng.choice(offs)
        elif k == "truncate":
            c["off"] = rng.choice(offs + [-1])
        calls.append(c)
    calls += [{"op": "close", "h": "a"}, {"op": "readfile", "name": "/f"}, {"op": "stat", "name": "/f"}]
    return {"config": {"rs": rs, "cache": cache}, "blobs": blobs, "obs": [], "calls": calls}


def directed_handle_histories():
    """Systematic short sequences: advance the cursor (read / forward seek), then seek to every kind of target
    (backward to a non-zero offset, to 0, forward, relative, from the end, to the end), then read and report the
    position; on read-write handles finish with a write so that a wrong cursor shows in the content."""
    hs = []
    size0 = 600
    k = 0
    for fl in (hist.O_RDONLY, hist.O_RDWR):
        for first in ({"op": "read", "n": 3}, {"op": "read", "n": 100}, {"op": "seek", "whence": 0, "off": 100}, {"op": "seek", "whence": 0, "off": 512}, {"op": "read", "n": 600}):
            for (w, o) in ((0, 0), (0, 1), (0, 50), (0, 99), (0, 100), (0, 300), (0, 599), (0, 600), (1, -1), (1, -50), (1, 5), (1, 0), (2, -1), (2, -100), (2, -600), (2, 0)):
                calls = [{"op": "initialize"}, {"op": "createfile", "name": "/f", "blob": 0}, {"op": "open", "h": "a", "name": "/f", "flags": fl, "perm": 0o644},
                         dict(first, h="a"), {"op": "seek", "h": "a", "whence": w, "off": o}, {"op": "read", "h": "a", "n": 6}, {"op": "seek", "h": "a", "whence": 1, "off": 0}]
                blobs = [{"seed": 1, "len": size0}]
                if fl == hist.O_RDWR:
                    calls += [{"op": "seek", "h": "a", "whence": 0, "off": 7}, {"op": "write", "h": "a", "data": base64.b64encode(pat(2, 0, 4)).decode()}]
                    blobs.append({"seed": 2, "len": 4})
                calls += [{"op": "close", "h": "a"}, {"op": "readfile", "name": "/f"}, {"op": "stat", "name": "/f"}]
                hs.append({"config": {"rs": [1, 3, 20][k % 3], "cache": "file"}, "blobs": blobs, "obs": [], "calls": calls, "_directed": True})
                k += 1
    # handles opened on an EMPTY file (O_TRUNC has nothing to truncate, the handle starts in read mode): position the cursor
    # (also behind the end), then the first write / positioned write / truncate must start from that position
    for fl in (hist.O_RDWR, hist.O_RDWR | hist.O_TRUNC, hist.O_RDWR | hist.O_APPEND, hist.O_WRONLY | hist.O_TRUNC):
        for pre in ([{"op": "seek", "whence": 0, "off": 20}], [{"op": "seek", "whence": 2, "off": 7}, {"op": "seek", "whence": 1, "off": 3}], [{"op": "read", "n": 5}, {"op": "seek", "whence": 0, "off": 600}]):
            for act in ({"op": "write", "data": base64.b64encode(pat(2, 0, 4)).decode()}, {"op": "writeat", "off": 3, "data": base64.b64encode(pat(2, 0, 4)).decode()}, {"op": "truncate", "off": 9}):
                if act["op"] == "writeat" and fl & hist.O_APPEND:
                    continue
                for size0 in (0, 10):
                    calls = [{"op": "initialize"}, {"op": "createfile", "name": "/f", "blob": 0}, {"op": "open", "h": "a", "name": "/f", "flags": fl, "perm": 0o644}]
                    # (the k-th write of a history carries the pattern with seed k+1: the convention of the model tie)
                    last = 3 if act["op"] != "truncate" else 2
                    calls += [dict(c, h="a") for c in pre] + [dict(act, h="a"), {"op": "seek", "h": "a", "whence": 1, "off": 0}, {"op": "write", "h": "a", "data": base64.b64encode(pat(last, 0, 2)).decode()},
                                                              {"op": "close", "h": "a"}, {"op": "readfile", "name": "/f"}, {"op": "stat", "name": "/f"}]
                    bl = [{"seed": 1, "len": size0}, {"seed": 2, "len": 4}, {"seed": 3, "len": 2}] if act["op"] != "truncate" else [{"seed": 1, "len": size0}, {"seed": 2, "len": 2}]
                    hs.append({"config": {"rs": [1, 3, 20][k % 3], "cache": "file"}, "blobs": bl, "obs": [], "calls": calls, "_directed": True})
                    k += 1
    # every combination of O_APPEND with O_TRUNC / O_CREATE / access mode: each write goes to the end wherever the cursor was put
    # (seek back, growing truncate) - the flags are decoded once, at OpenFile
    for acc in (hist.O_WRONLY, hist.O_RDWR):
        for extra in (0, hist.O_TRUNC, hist.O_CREATE, hist.O_TRUNC | hist.O_CREATE):
            for size0 in (0, 10):
                fl = acc | hist.O_APPEND | extra
                calls = [{"op": "initialize"}, {"op": "createfile", "name": "/f", "blob": 0}, {"op": "open", "h": "a", "name": "/f", "flags": fl, "perm": 0o644},
                         {"op": "write", "h": "a", "data": base64.b64encode(pat(2, 0, 4)).decode()}, {"op": "seek", "h": "a", "whence": 0, "off": 0},
                         {"op": "write", "h": "a", "data": base64.b64encode(pat(3, 0, 2)).decode()}, {"op": "seek", "h": "a", "whence": 1, "off": 0},
                         {"op": "truncate", "h": "a", "off": 20}, {"op": "seek", "h": "a", "whence": 0, "off": 3},
                         {"op": "writestring", "h": "a", "data": base64.b64encode(pat(4, 0, 3)).decode()}, {"op": "seek", "h": "a", "whence": 1, "off": 0},
                         {"op": "close", "h": "a"}, {"op": "readfile", "name": "/f"}, {"op": "stat", "name": "/f"}]
                hs.append({"config": {"rs": [1, 3, 20][k % 3], "cache": "file"}, "blobs": [{"seed": 1, "len": size0}, {"seed": 2, "len": 4}, {"seed": 3, "len": 2}, {"seed": 4, "len": 3}],
                           "obs": [], "calls": calls, "_directed": True})
                k += 1
    # pipeline configurations: the same byte-array behaviour is asked for under every codec; the corner is EMPTY content (an encoder
    # may emit bytes for it or nothing at all) reached through every way of emptying a file, and a plain write/seek/read sequence
    for cfg in ({"comp": "gzip"}, {"comp": "zstandard"}, {"enc": "age"}, {"comp": "bzip2", "enc": "age"}, {"comp": "lz4"}):
        for how in ("truncate0", "otrunc", "truncate-grow", "overwrite"):
            for cache in ("file", "memory"):
                if cache == "memory" and how in ("overwrite",):
                    continue          # the memory cache has its own known finding for overwrites inside the buffer
                fl = hist.O_RDWR | (hist.O_TRUNC if how == "otrunc" else 0)
                calls = [{"op": "initialize"}, {"op": "createfile", "name": "/f", "blob": 0}, {"op": "open", "h": "a", "name": "/f", "flags": fl, "perm": 0o644}]
                if how == "truncate0":
                    calls += [{"op": "truncate", "h": "a", "off": 0}]
                elif how == "truncate-grow":
                    calls += [{"op": "truncate", "h": "a", "off": 0}, {"op": "truncate", "h": "a", "off": 7}]
                elif how == "overwrite":
                    calls += [{"op": "seek", "h": "a", "whence": 0, "off": 5}, {"op": "write", "h": "a", "data": base64.b64encode(pat(2, 0, 4)).decode()}]
                calls += [{"op": "close", "h": "a"}, {"op": "readfile", "name": "/f"}, {"op": "stat", "name": "/f"},
                          {"op": "open", "h": "a", "name": "/f", "flags": hist.O_RDONLY, "perm": 0}, {"op": "seek", "h": "a", "whence": 2, "off": 0}, {"op": "read", "h": "a", "n": 8}, {"op": "close", "h": "a"}]
                hs.append({"config": dict({"rs": [1, 3, 20][k % 3], "cache": cache}, **cfg), "blobs": [{"seed": 1, "len": 600}, {"seed": 2, "len": 4}], "obs": [], "calls": calls,
                           "_directed": True, "_nomodel": True})
                k += 1
    return hs


def two_handle_histories():
    """Two handles on one file whose lifetimes overlap, used one after the other (one client): the second handle is opened while
    the file is still empty (or short), the first one writes and closes, then the second one writes. What the second handle knows
    from the time it was opened must not decide what it loads when it starts to write. Compared with two os.File handles on one file
    (not evaluated on the single-handle model File.v)."""
    hs = []
    k = 0
    A = base64.b64encode(pat(2, 0, 6)).decode()
    B = base64.b64encode(pat(3, 0, 2)).decode()
    for size0 in (0, 3):
        for fa in (hist.O_WRONLY | hist.O_APPEND, hist.O_RDWR):
            for fb in (hist.O_RDWR, hist.O_WRONLY | hist.O_APPEND, hist.O_WRONLY):
                for bop in ("write", "writeat", "truncate"):
                    if bop == "writeat" and fb & hist.O_APPEND:
                        continue
                    act = {"write": {"op": "write", "h": "b", "data": B}, "writeat": {"op": "writeat", "h": "b", "off": 1, "data": B}, "truncate": {"op": "truncate", "h": "b", "off": 4}}[bop]
                    calls = [{"op": "initialize"}, {"op": "createfile", "name": "/f", "blob": 0}, {"op": "open", "h": "a", "name": "/f", "flags": fa, "perm": 0o644},
                             {"op": "open", "h": "b", "name": "/f", "flags": fb, "perm": 0o644}, {"op": "write", "h": "a", "data": A}, {"op": "close", "h": "a"},
                             act, {"op": "close", "h": "b"}, {"op": "readfile", "name": "/f"}, {"op": "stat", "name": "/f"}]
                    hs.append({"config": {"rs": [1, 3, 20][k % 3], "cache": ["file", "memory"][k % 2] if bop == "write" else "file"}, "blobs": [{"seed": 1, "len": size0}, {"seed": 2, "len": 6}, {"seed": 3, "len": 2}],
                               "obs": [], "calls": calls, "_directed": True, "_nomodel": True})
                    k += 1
    return hs


def run_ref(h):
    pr = subprocess.run([hist.STFSDRV, "ref"], input=json.dumps(h), stdout=subprocess.PIPE, stderr=subprocess.PIPE, text=True,
                        timeout=120, env=dict(ENV, VERIF_SCRATCH=hist.scratch_dir()))
    return [json.loads(l) for l in pr.stdout.splitlines() if l.startswith("{")]


def handle_stream(ctx):
    data, p = streams.cache_get(ctx, "handles")
    if data is not None:
        return data
    ok, out = hist.build_harness()
    if not ok:
        raise RuntimeError(out[-1500:])
    quick = ctx.tier == "quick"
    rng = random.Random(ctx.seed * 53 + 11)
    hs = [dict(h) for h in streams.corpus("handles")] + directed_handle_histories() + two_handle_histories()
    for i in range(120 if quick else 1500):
        hs.append(handle_history(random.Random(rng.random()), rng.choice([1, 3, 20]), rng.choice(["file", "file", "memory"]),
                                 rng.randint(2, 10 if quick else 28), rng.choice([0, 10, 600, 1500])))
    hs = streams.replay_override(ctx, "history", hs)
    res = hist.run_many(hs)
    with ThreadPoolExecutor(max_workers=12) as ex:
        refs = list(ex.map(run_ref, hs))
    data = [dict(h=h, res=r, rc=rc, err=e[-1800:], ref=q) for h, (r, rc, e), q in zip(hs, res, refs)]
    streams.cache_put(p, data)
    return data


def canon(c, r):
    """comparable outcome of a handle call"""
    ret = r.get("ret") or {}
    out = r["out"]
    op = c["op"]
    if op in ("read", "readat"):
        data = ret.get("data", "")
        n = ret.get("n", 0)
        if out in ("ok", "eof"):
            # EOF signalling only matters when nothing was returned
            return ("data", data, "eof" if (out == "eof" and n <= 0) else "")
        return ("err",)
    if op == "seek":
        return ("off", ret.get("off")) if out == "ok" else ("err",)
    if op in ("write", "writeat", "writestring"):
        return ("n", ret.get("n")) if out == "ok" else ("err",)
    if op == "hstat":
        return ("size", (ret.get("info") or {}).get("size")) if out == "ok" else ("err",)
    if op == "stat":
        return ("size", (ret.get("info") or {}).get("size")) if out == "ok" else ("err",)
    if op == "readfile":
        return ("content", ret.get("sha"), ret.get("len")) if out == "ok" else ("err",)
    if op in ("truncate", "sync", "close", "open", "createfile", "initialize"):
        return ("ok",) if out == "ok" else ("err",)
    return (out,)


def c14_oracle(d):
    """first call whose outcome differs from the reference's"""
    h, res, ref = d["h"], d["res"], d["ref"]
    if d["rc"] != 0:
        return [dict(i=len(res), kind="crash-or-hang", detail=d["err"][-1500:])]
    for c, r, q in zip(h["calls"], res, ref):
        if c["op"] == "initialize":
            continue
        a, b = canon(c, r), canon(c, q)
        if c["op"] in ("read", "readat", "write", "writeat", "writestring") and "n" in (r.get("ret") or {}):
            # "the counts reported": whatever the outcome, a count is between 0 and the length asked for (io.Reader / io.Writer;
            # bytes.Buffer.ReadFrom panics on a negative count, io.ReadAll slices out of range)
            n = r["ret"]["n"]
            want = c["n"] if c["op"] in ("read", "readat") else len(base64.b64decode(c.get("data", ""))) if "data" in c else None
            if n < 0 or (want is not None and n > want):
                return [dict(i=r["i"], kind="count-out-of-range", detail=[c["op"], n, want, r["out"]])]
        if c["op"] in ("write", "writeat", "writestring") and not base64.b64decode(c.get("data", "")) and a[0] == "err" and b == ("n", 0):
            # a zero-length write on a handle that is not writable: os.File makes no system call and reports (0, nil),
            # STFS refuses it; nothing is written either way
            continue
        if a != b:
            return [dict(i=r["i"], kind="differs-from-byte-array-file", detail=[c["op"], {k: v for k, v in c.items() if k not in ("op", "h", "data")}, str(a)[:120], str(b)[:120]])]
    return []


def classify_c14(d, f):
    """known-finding signature of a deviation, decided from the calls BEFORE the deviating one (inputs only)"""
    h = d["h"]
    calls = h["calls"]
    i = f["i"]
    pre = calls[:i + 1]
    op = next((c for c in calls if c["op"] == "open"), None)
    fl = op["flags"] if op else 0
    size0 = h["blobs"][0]["len"] if any(c["op"] == "createfile" for c in calls) else 0
    if fl & hist.O_TRUNC and (fl & 3) != 0:
        size0 = 0
    wrote = any(c["op"] in ("write", "writeat", "writestring", "truncate") for c in pre[:-1]) or calls[i]["op"] in ("write", "writeat", "writestring", "truncate")
    if h["config"].get("cache") == "memory" and (wrote or any(c["op"] == "sync" for c in pre)):
        return "C14-memory-write-cache"
    # a seek (in read mode) to a target beyond the current end loses the position
    pos, size = 0, size0
    inw = False
    writable = (fl & 3) != 0
    for c in pre:
        if c["op"] in ("write", "writestring", "truncate", "writeat") and writable and not (c["op"] == "truncate" and c.get("off", 0) < 0):
            inw = True
        if c["op"] == "seek" and not inw:
            w, o = c.get("whence", 0), c.get("off", 0)
            tgt = o if w == 0 else (pos + o if w == 1 else size + o)
            if tgt > size:
                return "C14-seek-beyond-end-in-read-mode"
            if tgt >= 0:
                pos = tgt
        if c["op"] == "read" and not inw:
            pos = min(size, pos + c.get("n", 0))
    if fl & hist.O_APPEND and wrote:
        return "C14-append-honoured-only-at-first-write"
    return None


def cq_flags(fl):
    return "{| fl_read := %s; fl_write := %s; fl_append := %s; fl_trunc := %s |}" % (
        hist.cq_bool((fl & 3) in (0, 2)), hist.cq_bool((fl & 3) in (1, 2)), hist.cq_bool(fl & hist.O_APPEND), hist.cq_bool(fl & hist.O_TRUNC))


def cq_hop(c, blobs_by_data):
    op = c["op"]
    if op == "read":
        return "HRead %d" % c["n"]
    if op == "readat":
        return "HReadAt %d (%d)%%Z" % (c["n"], c["off"])
    if op == "seek":
        return "HSeek (%d)%%Z %d" % (c["off"], c["whence"])
    if op in ("write", "writestring"):
        return "HWrite %s" % hist.cq_content(blobs_by_data[c["data"]])
    if op == "writeat":
        return "HWriteAt %s (%d)%%Z" % (hist.cq_content(blobs_by_data[c["data"]]), c["off"])
    if op == "truncate":
        return "HTruncate (%d)%%Z" % c["off"]
    if op == "sync":
        return "HSync"
    if op == "hstat":
        return "HStat"
    return None


def cq_hres(c, r):
    ret = r.get("ret") or {}
    out = r["out"]
    op = c["op"]
    if op in ("read", "readat"):
        if out in ("ok", "eof"):
            return "RData %s %s" % (hist.cq_content(ret.get("pieces") or []), hist.cq_bool(out == "eof"))
        return "RErr"
    if out != "ok":
        return "RErr"
    if op == "seek":
        return "ROff (%d)%%Z" % ret.get("off")
    if op in ("write", "writeat", "writestring"):
        return "RN %d" % ret.get("n")
    if op == "hstat":
        return "RSize %d" % (ret.get("info") or {}).get("size")
    return "ROk"


def c14_tie(ctx, data):
    """file-cache handle sequences against Model/File.v (hstep), evaluated in Coq"""
    cached, p = streams.cache_get(ctx, "handletie")
    if cached is not None:
        return cached
    terms, idx = [], []
    for k, d in enumerate(data):
        h, res = d["h"], d["res"]
        if h["config"].get("cache") != "file" or d["rc"] != 0 or h.get("_nomodel"):
            continue
        calls = h["calls"]
        oi = next(i for i, c in enumerate(calls) if c["op"] == "open")
        if res[oi]["out"] != "ok":
            continue
        created = any(c["op"] == "createfile" for c in calls[:oi])
        init = [(1, 0, h["blobs"][0]["len"])] if created and h["blobs"][0]["len"] > 0 else []
        by_data, nb = {}, 1
        for c in calls:
            if c["op"] in ("write", "writeat", "writestring"):
                nb += 1
                n = len(base64.b64decode(c["data"]))
                by_data[c["data"]] = [(nb, 0, n)] if n > 0 else []
        ops, rs = [], []
        ci = next(i for i, c in enumerate(calls) if c["op"] == "close")
        for c, r in zip(calls[oi + 1:ci], res[oi + 1:ci]):
            o = cq_hop(c, by_data)
            if o is None:
                break
            ops.append(o)
            rs.append(cq_hres(c, r))
        fin = next((r for c, r in zip(calls, res) if c["op"] == "readfile"), None)
        if fin is None or fin["out"] != "ok" or res[ci]["out"] != "ok":
            continue
        terms.append("{| hc_init := %s; hc_fl := %s; hc_ops := %s; hc_res := %s; hc_final := %s |}" % (
            hist.cq_content(init), cq_flags(calls[oi]["flags"]), hist.cq_list(ops), hist.cq_list(rs), hist.cq_content((fin.get("ret") or {}).get("pieces") or [])))
        idx.append(k)
    bad, okall, log = [], True, ""
    for a in range(0, len(terms), 300):
        ok, resd, lg = hist.coq_eval_list("From STFS Require Import Str Db Tape Index Ops Fs File.", ["hmismatches [%s]" % "; ".join(terms[a:a + 300])], "Handles_%d_%d" % (ctx.seed, a))
        okall = okall and ok
        log += lg[-600:]
        import re
        for v in resd.values():
            for (ci_, j) in re.findall(r"\((\d+)(?:%nat)?,\s*(\d+)(?:%nat)?\)", v):
                bad.append((idx[a + int(ci_)], int(j)))
    cached = dict(ok=okall, bad=bad, cases=len(terms), log=log[-1200:])
    streams.cache_put(p, cached)
    return cached
