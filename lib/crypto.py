"""Crypto streams: key sweep (C18), forgeries (C08), markers (C09), configuration matrix (C03)."""
import collections, json, random, subprocess
from concurrent.futures import ThreadPoolExecutor
import hist, streams
from vlib import *


def run_cmd(cmd, job, timeout=900):
    p = subprocess.run([hist.STFSDRV, cmd], input=json.dumps(job), stdout=subprocess.PIPE, stderr=subprocess.PIPE, text=True,
                       timeout=timeout, env=dict(ENV, VERIF_SCRATCH=hist.scratch_dir()))
    e = p.stderr
    return [json.loads(l) for l in p.stdout.splitlines() if l.startswith("{")], p.returncode, (e[:1200] + "\n...\n" + e[-800:]) if len(e) > 2200 else e


def keys_stream(ctx):
    data, p = streams.cache_get(ctx, "keys")
    if data is not None:
        return data
    ok, out = hist.build_harness()
    if not ok:
        raise RuntimeError(out[-1500:])
    quick = ctx.tier == "quick"
    rng = random.Random(ctx.seed * 257 + 4)
    pws = ["", "a", "pässwörd ✓"] if quick else ["", "a", "pässwörd ✓", "x" * 200, " ", "\u0000z", "%d" % rng.randrange(10**12)]
    wrong = ["", "a", "b"] + (["pässwörd ✓ "] if not quick else [])
    jobs = [("enc", "age"), ("enc", "pgp"), ("sig", "minisign"), ("sig", "pgp")]
    def one(j):
        kind, fmt = j
        return run_cmd("keys", {"enc": [fmt] if kind == "enc" else [], "sig": [fmt] if kind == "sig" else [], "passwords": pws, "wrong": wrong, "bulk": 96 if quick else 600}, timeout=3000)
    with ThreadPoolExecutor(max_workers=4) as ex:
        res = list(ex.map(one, jobs))
    data = dict(passwords=pws, wrong=wrong, results=[dict(job=j, out=o, rc=rc, err=e) for j, (o, rc, e) in zip(jobs, res)])
    streams.cache_put(p, data)
    return data


FORGE_HISTORY = [{"op": "initialize"}, {"op": "mkdir", "name": "/a", "perm": 0o755}, {"op": "createfile", "name": "/a/f", "blob": 0},
                 {"op": "createfile", "name": "/g", "blob": 1}, {"op": "rename", "name": "/g", "name2": "/a/h"}, {"op": "chmod", "name": "/a/f", "perm": 0o600},
                 {"op": "createfile", "name": "/a/f", "blob": 2}, {"op": "remove", "name": "/a/h"}]


def forge_stream(ctx):
    data, p = streams.cache_get(ctx, "forge")
    if data is not None:
        return data
    ok, out = hist.build_harness()
    if not ok:
        raise RuntimeError(out[-1500:])
    quick = ctx.tier == "quick"
    rng = random.Random(ctx.seed * 89 + 8)
    cfgs = []
    for sig in ("minisign", "pgp"):
        for enc in ("", "age", "pgp"):
            for comp in ("", "gzip") if not quick else ("",):
                cfgs.append({"rs": rng.choice([3, 20]), "cache": "file", "sig": sig, "enc": enc, "comp": comp})
    if quick:
        cfgs = [c for c in cfgs if (c["sig"], c["enc"]) in (("minisign", ""), ("pgp", ""), ("minisign", "age"), ("pgp", "pgp"))]
    jobs = []
    for c in cfgs:
        hh = {"config": c, "blobs": [{"seed": 1, "len": 700}, {"seed": 2, "len": 10}, {"seed": 3, "len": 1300}], "obs": [], "calls": FORGE_HISTORY}
        if quick:
            jobs.append({"history": hh, "struct": True, "maxflip": 40, "flips": [], "seed": ctx.seed})
        else:
            # every byte of the tape, in chunks of 3000 positions per process (the tapes of this history are below 60000 bytes)
            for k in range(0, 60000, 3000):
                jobs.append({"history": hh, "struct": k == 0, "maxflip": 0, "flips": [-1], "from": k, "to": k + 3000, "seed": ctx.seed})
    jobs = streams.replay_override(ctx, "job", jobs)
    with ThreadPoolExecutor(max_workers=3 if quick else 8) as ex:
        res = list(ex.map(lambda j: run_cmd("forge", j, timeout=6000), jobs))
    data = [dict(job=j, out=o, rc=rc, err=e) for j, (o, rc, e) in zip(jobs, res)]
    if not quick and not getattr(ctx, "replay", None):
        # tapes longer than the chunked range: sweep the rest too
        extra = []
        for d in data:
            tl = max([r.get("tape_len", 0) for r in d["out"]] + [0])
            if d["job"].get("from") == 0 and tl > 60000:
                for k in range(60000, tl, 3000):
                    extra.append(dict(d["job"], struct=False, **{"from": k, "to": k + 3000}))
        if extra:
            with ThreadPoolExecutor(max_workers=8) as ex:
                res2 = list(ex.map(lambda j: run_cmd("forge", j, timeout=6000), extra))
            data += [dict(job=j, out=o, rc=rc, err=e) for j, (o, rc, e) in zip(extra, res2)]
    # a sweep process that died (memory pressure, a signal) while others were running is not a verdict: run that chunk again, alone;
    # what fails then is reported, with the beginning of its error output
    for d in data:
        if d["rc"] != 0:
            o, rc, e = run_cmd("forge", d["job"], timeout=6000)
            d.update(out=o, rc=rc, err=e, retried=True)
    streams.cache_put(p, data)
    return data


def c08_oracle(d):
    fails = []
    if d["rc"] != 0 or not d["out"] or any("fatal" in r for r in d["out"]):
        return [dict(kind="forgery-run-failed", pos=None, detail=[d["err"][-300:], [r for r in d["out"] if "fatal" in r]])]
    for r in d["out"]:
        if "kind" not in r:
            continue
        ix = str(r.get("index", ""))
        if ix.startswith("HANG") or ix.startswith("PANIC"):
            fails.append(dict(kind="indexer-" + ix[:5].lower(), pos=r.get("pos"), detail=[r["kind"], ix]))
        if r.get("forged_headers_accepted"):
            fails.append(dict(kind="forged-header-accepted", pos=r.get("pos"), detail=[r["kind"], r["forged_headers_accepted"][:2]]))
        if r.get("forged_content_returned"):
            fails.append(dict(kind="forged-content-returned", pos=r.get("pos"), detail=[r["kind"], r["forged_content_returned"][:2]]))
        if r["kind"].startswith("control") or r["kind"] == "untouched":
            if r.get("index") != "ok":
                fails.append(dict(kind="legitimate-tape-rejected", pos=r.get("pos"), detail=[r["kind"], r.get("index_err")]))
        elif r["kind"].startswith("unsigned-record-on-envelope"):
            # the signed header and its signature are intact: accepting the tape is fine as long as nothing but the
            # signed header is used (checked above: every accepted header must be one the writer signed)
            pass
        elif r["kind"] != "flip" and r["kind"] != "content-altered" and r.get("index") == "ok":
            fails.append(dict(kind="structured-forgery-not-rejected", pos=r.get("pos"), detail=[r["kind"]]))
    return fails


def marker_history(rng, cfg):
    ms = ["MRK%012x" % rng.getrandbits(48) for _ in range(4)]
    d, f, g, nn = ms[0], ms[1], ms[2], ms[3]
    calls = [{"op": "initialize"}, {"op": "mkdir", "name": "/" + d, "perm": 0o755}, {"op": "createfile", "name": "/%s/%s" % (d, f), "blob": 0},
             {"op": "createfile", "name": "/" + g, "blob": 1}, {"op": "rename", "name": "/" + g, "name2": "/%s/%s" % (d, nn)},
             {"op": "chmod", "name": "/%s/%s" % (d, nn), "perm": 0o600}, {"op": "chown", "name": "/" + d, "uid": 4242, "gid": 4343},
             {"op": "writefile", "name": "/%s/%s" % (d, f), "flags": hist.O_WRONLY | hist.O_APPEND, "perm": 0o644, "blob": 2},
             {"op": "mkdirall", "name": "/%s/x/%s" % (d, g), "perm": 0o700}, {"op": "remove", "name": "/%s/%s" % (d, nn)}, {"op": "removeall", "name": "/%s/x" % d},
             {"op": "createfile", "name": "/%s/e0" % d, "blob": 3}, {"op": "mkdir", "name": "/%s/sub" % d, "perm": 0o755},
             # a symbolic link: its own path and its target are names too
             {"op": "symlink", "name": "/%s/%s" % (d, f), "name2": "/%s/sub/L%s" % (d, nn)}]
    # blob k (seed k+1) embeds marker k
    return {"history": {"config": cfg, "blobs": [{"seed": 1, "len": rng.choice([60, 700, 3000])}, {"seed": 2, "len": 40}, {"seed": 3, "len": 600}, {"seed": 4, "len": 0}], "obs": [], "calls": calls},
            "markers": ms}


def markers_stream(ctx):
    data, p = streams.cache_get(ctx, "markers")
    if data is not None:
        return data
    ok, out = hist.build_harness()
    if not ok:
        raise RuntimeError(out[-1500:])
    quick = ctx.tier == "quick"
    rng = random.Random(ctx.seed * 71 + 12)
    cfgs = []
    for enc in ("age", "pgp"):
        for comp in ("", "gzip", "zstandard", "lz4", "brotli", "bzip2"):
            for sig in ("", "minisign", "pgp"):
                cfgs.append({"rs": rng.choice([1, 3, 20]), "cache": "file", "enc": enc, "comp": comp, "sig": sig})
    if quick:
        cfgs = [c for c in cfgs if (c["comp"], c["sig"]) in (("", ""), ("gzip", "minisign"), ("", "pgp"))]
    jobs = [marker_history(rng, c) for c in cfgs]
    jobs = streams.replay_override(ctx, "job", jobs)
    with ThreadPoolExecutor(max_workers=6) as ex:
        res = list(ex.map(lambda j: run_cmd("markers", j, timeout=1200), jobs))
    data = [dict(job=j, out=o, rc=rc, err=e) for j, (o, rc, e) in zip(jobs, res)]
    streams.cache_put(p, data)
    return data


def c09_oracle(d):
    fails = []
    if d["rc"] != 0 or not d["out"] or any("fatal" in r for r in d["out"]):
        return [dict(kind="marker-run-failed", i=None, detail=[d["err"][-300:], [r for r in d["out"] if "fatal" in r]])]
    for r in d["out"]:
        if "i" in r:
            if r.get("out") == "HANG":
                fails.append(dict(kind="call-hung", i=r["i"], detail=[]))
            if r.get("found"):
                fails.append(dict(kind="plaintext-on-tape", i=r["i"], detail=[r.get("op"), r["found"]]))
        if r.get("step") == "foreign-identity":
            if r.get("index") == "ok" or r.get("accepted", 0) > 0:
                fails.append(dict(kind="rebuild-succeeds-with-another-key", i=None, detail=[r.get("index"), r.get("accepted")]))
            if r.get("fetch_succeeded_for"):
                fails.append(dict(kind="restore-succeeds-with-another-key", i=None, detail=r["fetch_succeeded_for"][:3]))
            if r.get("restored_with_foreign_identity"):
                fails.append(dict(kind="restore-or-read-succeeds-with-another-key", i=None, detail=r["restored_with_foreign_identity"][:4]))
    return fails


COMPS = ["", "gzip", "parallelgzip", "lz4", "zstandard", "brotli", "bzip2", "parallelbzip2"]
LEVELS = ["fastest", "balanced", "smallest"]


SUFFIX = {"gzip": ".gz", "parallelgzip": ".gz", "lz4": ".lz4", "zstandard": ".zst", "brotli": ".br", "bzip2": ".bz2", "parallelbzip2": ".bz2", "age": ".age", "pgp": ".pgp"}


def matrix_history(cfg, sizes, kinds):
    blobs, calls = [], [{"op": "initialize"}]
    for i, (n, k) in enumerate([(n, k) for n in sizes for k in kinds]):
        blobs.append({"seed": i + 1, "len": n, "kind": k})
    half = len(blobs) // 2
    # first half through the filesystem (Create/Write/Close), second half through a batched Archive, then one Update
    for i in range(half):
        calls.append({"op": "createfile", "name": "/f%d" % i, "blob": i})
    if blobs[half:]:
        calls.append({"op": "archive", "files": [{"path": "/a%d" % i, "blob": i, "mode": 0o644} for i in range(half, len(blobs))]})
    calls.append({"op": "update", "files": [{"path": "/f0", "blob": len(blobs) - 1, "mode": 0o644}], "flag": True})
    calls.append({"op": "reopen"})
    names = ["/f%d" % i for i in range(half)] + ["/a%d" % i for i in range(half, len(blobs))]
    expect = {("/f%d" % i): i for i in range(half)}
    expect.update({("/a%d" % i): i for i in range(half, len(blobs))})
    expect["/f0"] = len(blobs) - 1
    dirs = []
    # names that themselves end in a codec suffix (of this configuration and of the others): with content, empty,
    # a directory; then a metadata update and a rename of them (records that carry names but no content)
    sufs = [x for x in {SUFFIX.get(cfg.get("comp") or "", ""), SUFFIX.get(cfg.get("enc") or "", "")} if x] or [".gz"]
    big = max(range(len(blobs)), key=lambda i: blobs[i]["len"])
    empty = min(range(len(blobs)), key=lambda i: blobs[i]["len"])
    for j, sf in enumerate(sorted(sufs) + [".zst.age"]):
        n, e, dname, m = "/n%d%s" % (j, sf), "/e%d%s" % (j, sf), "/d%d%s" % (j, sf), "/m%d%s" % (j, sf)
        calls += [{"op": "createfile", "name": n, "blob": big}, {"op": "createfile", "name": e, "blob": empty}, {"op": "mkdir", "name": dname, "perm": 0o755},
                  {"op": "chmod", "name": n, "perm": 0o600, "obs": ["tape", "prefix", "tree", "rebuild"]}, {"op": "chmod", "name": e, "perm": 0o600, "obs": ["tape", "prefix", "tree", "rebuild"]},
                  {"op": "rename", "name": n, "name2": m, "obs": ["tape", "prefix", "tree", "rebuild"]}, {"op": "createfile", "name": dname + "/c" + sf, "blob": big}]
        expect[m] = big
        expect[e] = empty
        expect[dname + "/c" + sf] = big
        names += [m, e, dname + "/c" + sf]
        dirs.append(dname)
    # truncate an existing file with content to nothing (an encoder may emit nothing at all for empty content)
    tr = next((nm for nm in names if blobs[expect[nm]]["len"] > 0), None)
    if tr is not None:
        calls.append({"op": "writefile", "name": tr, "flags": 0o1000 | 1, "perm": 0o644, "blob": empty, "flag": False})
        expect[tr] = empty
    # the write cache under this configuration, through one handle: write, rewind, ask the handle for its size, read the
    # content back through the same handle, replace the first bytes, close; then it is read like every other file
    W = 0o100 | 2
    calls += [{"op": "open", "h": "wc", "name": "/wc", "flags": W, "perm": 0o644}, {"op": "write", "h": "wc", "blob": big}, {"op": "seek", "h": "wc", "whence": 0, "off": 0},
              {"op": "hstat", "h": "wc", "htag": "size", "hblob": big}, {"op": "read", "h": "wc", "n": blobs[big]["len"] + 5, "htag": "content", "hblob": big},
              {"op": "seek", "h": "wc", "whence": 0, "off": 0}, {"op": "hstat", "h": "wc", "htag": "size", "hblob": big}, {"op": "write", "h": "wc", "blob": big}, {"op": "close", "h": "wc"}]
    expect["/wc"] = big
    names.append("/wc")
    calls.append({"op": "reopen"})
    for n in names:
        calls += [{"op": "readfile", "name": n, "tag": n}, {"op": "stat", "name": n, "tag": n}, {"op": "restore", "name": n, "name2": "", "flag": True, "tag": n}]
    calls.append({"op": "nop", "obs": ["fetch", "tree", "rebuild"], "tag": "fetch"})
    # the tape is looked at after every call (C05: appended only, block grid, iterable by a standard reader, under every pipeline)
    return {"config": cfg, "blobs": blobs, "obs": ["tape", "prefix"], "calls": calls, "expect": expect, "dirs": dirs}


def matrix_stream(ctx):
    data, p = streams.cache_get(ctx, "matrix")
    if data is not None:
        return data
    ok, out = hist.build_harness()
    if not ok:
        raise RuntimeError(out[-1500:])
    quick = ctx.tier == "quick"
    rng = random.Random(ctx.seed * 43 + 13)
    cfgs = []
    for comp in COMPS:
        for level in LEVELS:
            for enc in ("", "age", "pgp"):
                for sig in ("", "minisign", "pgp"):
                    cfgs.append(dict(comp=comp, level=level, enc=enc, sig=sig))
    if quick:
        # every compression x one level, every encryption, every signature at least once; 24 configurations
        pick = []
        for i, comp in enumerate(COMPS):
            # every compression once without encryption (the encoders' own behaviour on empty and tiny contents shows only then)
            # and once under age or OpenPGP; levels and signature formats rotate
            pick.append(dict(comp=comp, level=LEVELS[i % 3], enc="", sig=["", "minisign", "pgp"][(i // 2) % 3]))
            pick.append(dict(comp=comp, level=LEVELS[(i + 1) % 3], enc=["age", "pgp"][i % 2], sig=["", "minisign", "pgp"][(i + 1) % 3]))
        cfgs = pick
    hs = []
    for c in cfgs:
        rs = rng.choice([1, 2, 3, 7, 20, 64])
        sizes = [0, 1, 511, 512, 513, rs * 512 - 1, rs * 512 + 1] + ([3 * rs * 512 + 5] if rs <= 20 else [])
        sizes = sorted(set(sizes))
        if quick:
            sizes = [0] + rng.sample(sizes[1:], 3)
        kinds = ["", "zeros", "text"] if not quick else [rng.choice(["", "zeros", "text"])]
        cache = rng.choice(["file", "memory"])
        hs.append(matrix_history(dict(c, rs=rs, cache=cache), sizes, kinds))
    hs = streams.replay_override(ctx, "history", hs)
    hs = [h for h in hs if "expect" in h]
    res = hist.run_many(hs, workers=10, timeout=600)
    data = [dict(h=h, res=r, rc=rc, err=e[-600:]) for h, (r, rc, e) in zip(hs, res)]
    streams.cache_put(p, data)
    return data


def c03_oracle(d):
    h, res = d["h"], d["res"]
    fails = []
    if d["rc"] != 0:
        last = res[-1] if res else {}
        return [dict(kind="crash-or-hang", name=None, detail=[d["rc"], last.get("op"), d["err"][-200:]])]
    blobs = h["blobs"]
    for c, r in zip(h["calls"], res):
        if c["op"] in ("createfile", "archive", "update", "initialize", "reopen") and r["out"] != "ok":
            fails.append(dict(kind="write-failed", name=c.get("name"), detail=[c["op"], r["out"], r.get("err")]))
        if c.get("htag") and blobs[c["hblob"]]["len"] > 0:
            bl = blobs[c["hblob"]]
            ret = r.get("ret") or {}
            if c["htag"] == "size" and (r["out"] != "ok" or (ret.get("info") or {}).get("size") != bl["len"]):
                fails.append(dict(kind="handle-size-differs-from-written", name="/wc", detail=[r["out"], (ret.get("info") or {}).get("size"), bl["len"]]))
            if c["htag"] == "content" and (r["out"] not in ("ok", "eof") or ret.get("n") != bl["len"] or ret.get("blob") not in [i for i, x in enumerate(blobs) if x == bl]):
                fails.append(dict(kind="handle-read-differs-from-written", name="/wc", detail=[r["out"], ret.get("n"), bl["len"], ret.get("blob"), c["hblob"]]))
        t = c.get("tag")
        if not t or t == "fetch":
            continue
        b = blobs[h["expect"][t]]
        ret = r.get("ret") or {}
        if c["op"] in ("readfile", "restore"):
            same = ret.get("blob") == h["expect"][t] or (b["len"] == 0 and ret.get("len") == 0)   # all empty contents are one content
            if r["out"] != "ok" or ret.get("len") != b["len"] or not same:
                # blob ids are resolved by content hash, so a wrong id means wrong bytes
                fails.append(dict(kind="%s-differs-from-written" % c["op"], name=t, detail=[r["out"], r.get("err"), ret.get("len"), b["len"], b.get("kind")]))
        elif c["op"] == "stat":
            if r["out"] != "ok" or (ret.get("info") or {}).get("size") != b["len"]:
                fails.append(dict(kind="stat-size-differs", name=t, detail=[r["out"], (ret.get("info") or {}).get("size"), b["len"]]))
    last = res[-1] if res else {}
    for c, r in zip(h["calls"], res):
        if c["op"] in ("mkdir", "chmod", "rename") and r["out"] != "ok":
            fails.append(dict(kind="name-with-codec-suffix", name=c.get("name"), detail=[c["op"], r["out"], r.get("err")]))
    want = sorted(set(list(h["expect"].keys()) + h.get("dirs", [])))
    for where, tree in (("tree", (last.get("obs") or {}).get("tree")), ("rebuilt-tree", ((last.get("obs") or {}).get("rebuild") or {}).get("tree"))):
        if tree is None:
            continue
        got = sorted(e["path"] for e in tree if e.get("path") not in ("/", ""))
        if got != want:
            fails.append(dict(kind="names-differ-from-archived", name=where, detail=[sorted(set(want) - set(got)), sorted(set(got) - set(want))]))
    for f in (last.get("obs") or {}).get("fetch", []):
        n = f["name"] if f["name"].startswith("/") else "/" + f["name"]
        if n in h["expect"]:
            b = blobs[h["expect"][n]]
            if f.get("err") or f.get("len") != b["len"] or (f.get("blob") != h["expect"][n] and not (b["len"] == 0 and f.get("len") == 0)):
                fails.append(dict(kind="fetch-differs-from-written", name=n, detail=[f.get("err"), f.get("len"), b["len"]]))
    return fails


# ---------------------------------------------------------------- C03: codec interfaces with both drive kinds
def codec_stream(ctx):
    data, p = streams.cache_get(ctx, "codec")
    if data is not None:
        return data
    ok, out = hist.build_harness()
    if not ok:
        raise RuntimeError(out[-1500:])
    quick = ctx.tier == "quick"
    rng = random.Random(ctx.seed * 29 + 5)
    blobs = [{"seed": 1, "len": 0}, {"seed": 2, "len": 1}, {"seed": 3, "len": 512, "kind": "zeros"},
             {"seed": 4, "len": rng.choice([65535, 65536, 70001])}, {"seed": 5, "len": rng.choice([200000, 262145]), "kind": "text"}, {"seed": 6, "len": 300000, "kind": "text"}]
    if not quick:
        blobs += [{"seed": 16, "len": 1 << 20}, {"seed": 7, "len": 4194305, "kind": "zeros"}, {"seed": 8, "len": 511}, {"seed": 9, "len": 513, "kind": "text"}]
    jobs = []
    for comp in COMPS:
        # quick: OpenPGP only under the read-ahead (parallel) decompressors, whose reads after the end it must survive
        for enc in ((("", "age", "pgp") if comp.startswith("parallel") else ("", "age")) if quick else ("", "age", "pgp")):
            jobs.append(dict(comps=[comp], levels=LEVELS, encs=[enc], sigs=["", "minisign", "pgp"],
                             rs=[1, 20, 128, 512] if quick else [1, 2, 3, 7, 20, 64, 128, 256, 512, 2048, 8192], regular=[True, False], blobs=blobs))
    jobs = [j for j in streams.replay_override(ctx, "job", jobs) if "comps" in j]
    with ThreadPoolExecutor(max_workers=14) as ex:
        res = list(ex.map(lambda j: run_cmd("codec", j, timeout=3000), jobs))
    data = [dict(job=j, out=o, rc=rc, err=e[-400:]) for j, (o, rc, e) in zip(jobs, res)]
    streams.cache_put(p, data)
    return data


REFUSALS = ("compression format only supports regular files", "signature format only supports regular files", "compression format requires larger record size",
            "window size must be")


def codec_oracle(d):
    fails = []
    if d["rc"] != 0 or not d["out"]:
        return [dict(kind="codec-run-failed", name=None, detail=[d["rc"], d["err"]])]
    for r in d["out"]:
        res = r.get("result", "")
        if res == "ok":
            continue
        if res.startswith("refused:") and any(x in res for x in REFUSALS):
            # the combination is refused when the pipeline is set up, before anything is written: not a supported combination
            continue
        fails.append(dict(kind="codec-roundtrip", name="%s-%s/%s/%s rs=%s regular=%s len=%s" % (r.get("comp"), r.get("level"), r.get("enc"), r.get("sig"), r.get("rs"), r.get("regular"), r.get("len")), detail=[res]))
    return fails
