"""Crypto streams: key sweep (C18), forgeries (C08), markers (C09), configuration matrix (C03)."""
import collections, json, random, subprocess
from concurrent.futures import ThreadPoolExecutor
import hist, streams
from vlib import *


def run_cmd(cmd, job, timeout=900):
    p = subprocess.run([hist.STFSDRV, cmd], input=json.dumps(job), stdout=subprocess.PIPE, stderr=subprocess.PIPE, text=True,
                       timeout=timeout, env=dict(ENV, VERIF_SCRATCH=hist.scratch_dir()))
    return [json.loads(l) for l in p.stdout.splitlines() if l.startswith("{")], p.returncode, p.stderr[-800:]


def keys_stream(ctx):
    data, p = streams.cache_get(ctx, "keys")
    if data is not None:
        return data
    ok, out = hist.build_harness()
    if not ok:
        raise RuntimeError(out[-1500:])
    quick = ctx.tier == "quick"
    rng = random.Random(ctx.seed * 257 + 4)
    pws = ["", "a", "pässwörd ✓"] if quick else ["", "a", "pässwörd ✓", "x" * 200, " ", "\u0000z", "%d" % rng.randrange(10**12)]
    wrong = ["", "a", "b"] + (["pässwörd ✓ "] if not quick else [])
    jobs = [("enc", "age"), ("enc", "pgp"), ("sig", "minisign"), ("sig", "pgp")]
    def one(j):
        kind, fmt = j
        return run_cmd("keys", {"enc": [fmt] if kind == "enc" else [], "sig": [fmt] if kind == "sig" else [], "passwords": pws, "wrong": wrong}, timeout=3000)
    with ThreadPoolExecutor(max_workers=4) as ex:
        res = list(ex.map(one, jobs))
    data = dict(passwords=pws, wrong=wrong, results=[dict(job=j, out=o, rc=rc, err=e) for j, (o, rc, e) in zip(jobs, res)])
    streams.cache_put(p, data)
    return data
