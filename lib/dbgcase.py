"""python3 lib/dbgcase.py <mmfile.json> <call>: print model vs implementation observation of one call."""
import sys, os, json, re
sys.path.insert(0, os.path.dirname(os.path.abspath(__file__)))
import hist
from vlib import *
d = json.load(open(sys.argv[1])); h, r = d["h"], d["r"]; j = int(sys.argv[2])
t = hist.emit_case(h, r, hist.identity_of(r))
f = os.path.join(COQ, "Cases", "Dbg.v")
open(f, "w").write("From Coq Require Import String List NArith ZArith Bool.\nImport ListNotations.\nFrom STFS Require Import Str Db Tape Index Ops Fs Diff.\nOpen Scope N_scope.\nOpen Scope string_scope.\n"
  "Definition c : case := %s.\nDefinition MO := Eval vm_compute in nth_error (run (cs_cfg c) init_sys (cs_hist c)) %d.\nDefinition IO := Eval vm_compute in nth_error (cs_obs c) %d.\nPrint MO.\nPrint IO.\n" % (t, j, j))
rc, out = sh("coqc -Q Skel STFS -Q Gen STFS -Q Mon STFS -Q Model STFS Cases/Dbg.v", cwd=COQ)
def dec(m):
    nums = [int(x) for x in re.findall(r"\d+", m.group(1))]
    if all(n < 256 for n in nums):
        return '"' + bytes(nums).decode("utf8", "replace") + '"'
    return m.group(0)
out = re.sub(r"\[((?:\d+;\s*)*\d+)\]", dec, out)
out = re.sub(r"\s+", " ", out)
mo, io = out.split("IO =")
def rows(x):
    return re.findall(r"\{\| r_name.*?\|\}", x), re.findall(r"\{\| e_path.*?\|\}", x), re.findall(r"ob_out := \w+", x), re.findall(r"ob_blocks := \d+", x)
a, b = rows(mo), rows(io)
print("MODEL", a[2], a[3]); print("IMPL ", b[2], b[3])
for k in (0, 1):
    for x, y in zip(a[k] + [""] * 50, b[k] + [""] * 50):
        if x == "" and y == "": break
        print(" ==" if x == y else " !!"); print("   M", x)
        if x != y: print("   I", y)
