"""C16 stream: constructing and initialising a filesystem over an existing (possibly cut) tape
with an absent, current or stale index, then writing through it."""
import collections, json, random
import hist, streams, oracles, prefix
from vlib import *


def opening_stream(ctx):
    data, p = streams.cache_get(ctx, "opening")
    if data is not None:
        return data
    ok, out = hist.build_harness()
    if not ok:
        raise RuntimeError(out[-1500:])
    quick = ctx.tier == "quick"
    rng = random.Random(ctx.seed * 613 + 2)
    bases = [dict(h) for h in streams.corpus("opening")]
    for i in range(6 if quick else 60):
        rs = rng.choice([1, 3, 20])
        bases.append(prefix.small_history(rng, rs, 7 if quick else 12))
    # pipeline configurations: the rebuild on opening goes through decryption and verification of every header
    for i, extra in enumerate([{"enc": "age"}, {"enc": "pgp", "sig": "pgp", "comp": "gzip"}] * (1 if quick else 4)):
        h = prefix.small_history(rng, rng.choice([3, 20]), 6 if quick else 10)
        h["config"] = dict(h["config"], **extra)
        bases.append(h)
    bases = streams.replay_override(ctx, "history", bases)
    ph1 = hist.run_many([dict(h, calls=h["calls"] + [{"op": "nop", "obs": ["tape"]}]) for h in bases])
    comps = []
    for h, (res, rc, err) in zip(bases, ph1):
        if rc != 0 or not res or "obs" not in res[-1]:
            continue
        mem = res[-1]["obs"]["members"]
        full = res[-1]["obs"]["tape_len"]
        if not mem:
            continue
        lay = prefix.layout(mem)
        # archive ends: a trailer (2 blocks) follows the last member of every call
        rec_ends = [l[4] for l in lay]
        # behind a member, and behind the trailer that follows it - where one follows (the members of one batched Archive call
        # are written back to back: two blocks behind such a member lie inside the next member's header group, a torn cut)
        starts = [l[0] * 512 for l in lay] + [None]
        aligned = sorted(set([full] + [((l[4] + 511) // 512) * 512 for l in lay] +
                             [((l[4] + 511) // 512 + 2) * 512 for l, nxt in zip(lay, starts[1:])
                              if ((l[4] + 511) // 512 + 2) * 512 <= full and (nxt is None or nxt >= ((l[4] + 511) // 512 + 2) * 512)]))
        torn = []
        for l in lay[1:]:
            torn += [l[0] * 512 + 100, l[3] - 1, l[3]]          # inside the header group, just before / at its end
            if l[2] > 1:
                torn += [l[3] + l[2] // 2, l[4] - 1]              # inside the data
        cuts = [(n, "aligned") for n in rng.sample(aligned, min(len(aligned), 3 if quick else 8))] + \
               [(n, "torn") for n in rng.sample(torn, min(len(torn), 3 if quick else 10))]
        if (full, "aligned") not in cuts:
            cuts.append((full, "aligned"))
        for (n, kind) in cuts:
            for idx in ("absent", "current", "stale"):
                calls = list(h["calls"]) + [{"op": "savedrive", "name": "A"}]
                if idx == "absent":
                    calls += [{"op": "loaddrive", "name": "A", "off": n}, {"op": "nop", "obs": ["tapesha"], "tag": "before"},
                              {"op": "rebuild", "obs": ["force", "tapesha", "tree", "rows"], "tag": "open"}]
                elif idx == "current":
                    calls += [{"op": "loaddrive", "name": "A", "off": n}, {"op": "rebuild", "tag": "prep"},
                              {"op": "nop", "obs": ["tapesha"], "tag": "before"}, {"op": "reopen", "obs": ["force", "tapesha", "tree", "rows"], "tag": "open"}]
                else:
                    shorter = [e for e in aligned if e < n]
                    if not shorter:
                        continue
                    calls += [{"op": "loaddrive", "name": "A", "off": rng.choice(shorter)}, {"op": "rebuild", "tag": "prep"},
                              {"op": "loaddrive", "name": "A", "off": n}, {"op": "nop", "obs": ["tapesha"], "tag": "before"},
                              {"op": "reopen", "obs": ["force", "tapesha", "tree", "rows"], "tag": "open"}]
                # afterwards: write through it, read back, and compare with a rebuild
                nb = len(h["blobs"])
                # (a rename too: its records are computed from the names as the opened index spells them)
                calls += [{"op": "mkdir", "name": "/post", "perm": 0o755, "tag": "post"}, {"op": "createfile", "name": "/post/g", "blob": nb, "tag": "post"},
                          {"op": "mkdir", "name": "/post/d", "perm": 0o755, "tag": "post"}, {"op": "rename", "name": "/post/g", "name2": "/post/d/f", "tag": "post"},
                          {"op": "rename", "name": "/post/d", "name2": "/post/e", "tag": "post"}, {"op": "rename", "name": "/post/e/f", "name2": "/post/f", "tag": "post"},
                          {"op": "readfile", "name": "/post/f", "tag": "readback", "obs": ["tree", "rebuild"]}]
                # scratch reference for the opened view: recovery.Index(overwrite) of the same cut tape into a fresh index
                calls += [{"op": "loaddrive", "name": "A", "off": n}, {"op": "newindex"}, {"op": "reindex", "flag": True, "obs": ["force", "tree"], "tag": "scratch"}]
                comps.append(dict(h, blobs=h["blobs"] + [{"seed": nb + 1, "len": 777}], calls=calls, cut=n, cutkind=kind, index=idx, nbase=len(h["calls"]),
                                  has_root=(n >= lay[0][4]), full=full))
    runs = hist.run_many(comps, timeout=180)
    data = [dict(h=c, res=r, rc=rc, err=e[-600:]) for c, (r, rc, e) in zip(comps, runs)]
    streams.cache_put(p, data)
    return data


def c16_oracle(d):
    h, res = d["h"], d["res"]
    fails = []
    if d["rc"] != 0:
        return [dict(kind="crash-or-hang", detail=d["err"][-300:])]
    tag = lambda t: next((r for r, c in zip(res, h["calls"]) if c.get("tag") == t), None)
    before, opened, scratch, readback = tag("before"), tag("open"), tag("scratch"), tag("readback")
    if before is None or opened is None:
        return fails
    b, o = before["obs"], opened["obs"]
    if o.get("tape_len", 0) < b.get("tape_len", 0):
        fails.append(dict(kind="opening-shortened-the-tape", detail=[b.get("tape_len"), o.get("tape_len")]))
    if h["has_root"] and o.get("tape_len") != b.get("tape_len"):
        fails.append(dict(kind="opening-appended-although-a-root-is-on-the-tape", detail=[b.get("tape_len"), o.get("tape_len"), opened["out"], opened.get("err")]))
    if o.get("tape_len") == b.get("tape_len") and o.get("tape_sha") != b.get("tape_sha"):
        fails.append(dict(kind="opening-rewrote-tape-content", detail=[]))
    if opened["out"] == "ok" and scratch is not None and scratch["out"] in ("ok", "other", "eof") and "tree" in o and "tree" in (scratch.get("obs") or {}):
        dd = oracles.tree_diff(o["tree"], scratch["obs"]["tree"])
        if dd:
            fails.append(dict(kind="opened-view-differs-from-rebuild", detail=dd[:3]))
    if opened["out"] == "ok" and readback is not None:
        posts = [r for r, c in zip(res, h["calls"]) if c.get("tag") == "post"]
        if all(r["out"] == "ok" for r in posts):
            want = h["blobs"][-1]["len"]
            if readback["out"] != "ok" or (readback.get("ret") or {}).get("len") != want:
                fails.append(dict(kind="entry-written-after-opening-not-retrievable", detail=[readback["out"], (readback.get("ret") or {}).get("len"), want]))
            rb = (readback.get("obs") or {}).get("rebuild")
            if rb is not None:
                live = {e["path"] for e in readback["obs"]["tree"]}
                reb = {e["path"] for e in rb.get("tree", [])}
                if rb.get("init") != "ok" or not {"/post", "/post/f", "/post/e"} <= reb or ({"/post/g", "/post/d", "/post/d/f", "/post/e/f"} & (reb | live)):
                    fails.append(dict(kind="entry-written-after-opening-lost-by-rebuild", detail=[rb.get("init"), sorted(live - reb)[:4]]))
        else:
            fails.append(dict(kind="write-after-opening-failed", detail=[(r["out"], r.get("err")) for r in posts]))
    return fails


def classify_c16(d, f):
    h = d["h"]
    if h["index"] == "stale" and f["kind"] in ("opened-view-differs-from-rebuild",):
        return "C16-stale-index-trusted"
    if h["cutkind"] == "torn" and f["kind"] in ("entry-written-after-opening-not-retrievable", "entry-written-after-opening-lost-by-rebuild", "write-after-opening-failed"):
        return "C16-append-after-damaged-tail"
    if h["index"] == "stale" and f["kind"] in ("entry-written-after-opening-not-retrievable", "entry-written-after-opening-lost-by-rebuild", "write-after-opening-failed"):
        return "C16-stale-index-trusted"
    return None
