"""Implementation-side runs (stfsdrv) for the M2 properties: fault enumeration (C10) and the
read-only oracle (C15)."""
import collections, copy, json, random
import hist, streams
from vlib import *

SEAMS = ["open-write", "drive-write", "close-write", "open-read", "close-read", "meta", "src-read"]
READ_OPS = ("readfile", "read", "readat", "seek", "readdir")


def fault_bases(ctx):
    quick = ctx.tier == "quick"
    rng = random.Random(ctx.seed * 31 + 5)
    hs = []
    fixed = [
        [{"op": "mkdir", "name": "/a", "perm": 0o755}, {"op": "createfile", "name": "/a/f", "blob": 0}, {"op": "rename", "name": "/a/f", "name2": "/a/g"},
         {"op": "chmod", "name": "/a/g", "perm": 0o600}, {"op": "removeall", "name": "/a"}, {"op": "removeall", "name": "/missing"}],
        [{"op": "archive", "files": [{"path": "/x", "blob": 0, "mode": 0o644}, {"path": "/d", "blob": -1, "mode": 0o755}, {"path": "/d/y", "blob": 1, "mode": 0o644}]},
         {"op": "update", "files": [{"path": "/x", "blob": 1, "mode": 0o644}], "flag": True}, {"op": "move", "name": "/d", "name2": "/e"},
         {"op": "delete", "name": "/e"}, {"op": "restore", "name": "/x", "name2": "", "flag": True}, {"op": "readfile", "name": "/x"}],
        [{"op": "mkdirall", "name": "/p/q/r", "perm": 0o755}, {"op": "writefile", "name": "/p/q/f", "flags": hist.O_WRONLY | hist.O_CREATE, "perm": 0o644, "blob": 1},
         {"op": "writefile", "name": "/p/q/f", "flags": hist.O_WRONLY | hist.O_APPEND, "perm": 0o644, "blob": 0}, {"op": "chown", "name": "/p", "uid": 5, "gid": 6},
         {"op": "rename", "name": "/p/q", "name2": "/z"}, {"op": "remove", "name": "/z/f"}, {"op": "stat", "name": "/z"}, {"op": "reopen"}],
    ]
    # a read handle whose entry disappears (removed, renamed, parent removed) before its first read: the calls on the stale
    # handle and everything after them have to return
    for gone in ([{"op": "remove", "name": "/h/f"}], [{"op": "rename", "name": "/h/f", "name2": "/h/g"}], [{"op": "removeall", "name": "/h"}], [{"op": "rename", "name": "/h", "name2": "/k"}],
                 # ... or is replaced by a directory under the same name
                 [{"op": "remove", "name": "/h/f"}, {"op": "mkdir", "name": "/h/f", "perm": 0o755}],
                 [{"op": "remove", "name": "/h/f"}, {"op": "mkdir", "name": "/h/f", "perm": 0o755}, {"op": "mkdir", "name": "/h/f/sub", "perm": 0o755}]):
        # (a file put back under the name would make the stale handle readable again and leave it mid-stream: the known finding C10-read-goroutine)
        fixed.append([{"op": "mkdir", "name": "/h", "perm": 0o755}, {"op": "createfile", "name": "/h/f", "blob": 0}, {"op": "open", "h": "s", "name": "/h/f", "flags": 0, "perm": 0}] + gone +
                     [{"op": "read", "h": "s", "n": 10, "tmo": 6000}, {"op": "seek", "h": "s", "whence": 0, "off": 3, "tmo": 6000}, {"op": "readat", "h": "s", "n": 4, "off": 1, "tmo": 6000},
                      {"op": "close", "h": "s", "tmo": 6000}, {"op": "mkdir", "name": "/after", "perm": 0o755, "tmo": 6000}])
    for calls in fixed:
        hs.append({"config": {"rs": 3, "cache": "file"}, "blobs": [{"seed": 1, "len": 700}, {"seed": 2, "len": 2000}],
                   "calls": [{"op": "initialize"}] + calls, "obs": []})
    for i in range(2 if quick else 25):
        rs = rng.choice([1, 2, 20])
        g = hist.Gen(random.Random(rng.random()), rs, alpha=hist.SAFE_ALPHA, max_calls=7 if quick else 12, ops_level=True, malformed=0.15)
        h = g.history({"rs": rs, "cache": "file"}, [])
        hs.append(h)
    # entries that exist at every fault point: the probes after a faulted call go through every write operation on them
    for h in hs:
        if not any(b["len"] > 0 for b in h["blobs"]):
            h["blobs"].append({"seed": len(h["blobs"]) + 1, "len": 300})
        nb = next(i for i, b in enumerate(h["blobs"]) if b["len"] > 0)
        k = 1 if h["calls"] and h["calls"][0]["op"] == "initialize" else 0
        h["calls"][k:k] = [{"op": "createfile", "name": "/zz-keep", "blob": nb}, {"op": "mkdir", "name": "/zz-dir", "perm": 0o755}]
    return hs


def probes(j):
    """calls issued after a faulted call: one through each write operation (archive, update, move, delete) and a read; they
    have to RETURN (with a result or an error), nothing more"""
    return [{"op": "mkdir", "name": "/probe-%d" % j, "perm": 0o755, "tmo": 4000}, {"op": "stat", "name": "/probe-%d" % j, "tmo": 4000},
            {"op": "chmod", "name": "/zz-keep", "perm": 0o600, "tmo": 4000}, {"op": "rename", "name": "/zz-dir", "name2": "/zz-dir2", "tmo": 4000},
            {"op": "remove", "name": "/zz-keep", "tmo": 4000}, {"op": "readfile", "name": "/zz-keep", "tmo": 4000}]


def faults_C10(ctx, proof_ok):
    """For every call of every base history and every fault point the fault-free run reaches at a seam:
    re-run with that fault, then probe. The call must return, the drive must be free, the probe must complete."""
    ok, out = hist.build_harness()
    ctx.oblige("harness builds against the current /repo", ok, out[-1500:])
    if not ok:
        return
    cached, p = streams.cache_get(ctx, "faults")
    if cached is None:
        bases = streams.replay_override(ctx, "history", fault_bases(ctx), lambda h: dict(h, obs=[], calls=[{k: v for k, v in c.items() if k not in ("fault", "tmo")} for c in h["calls"] if not str(c.get("name", "")).startswith("/probe-")]))
        clean = hist.run_many(bases)
        plans = []
        for bi, (h, (res, rc, err)) in enumerate(zip(bases, clean)):
            for r in res:
                j = r["i"]
                for seam, n in sorted((r.get("seams") or {}).items()):
                    ks = list(range(1, n + 1))
                    if len(ks) > 6 and ctx.tier == "quick":
                        ks = ks[:3] + [ks[len(ks) // 2]] + ks[-2:]
                    for k in ks:
                        plans.append((bi, j, seam, k))
        runs = []
        for (bi, j, seam, k) in plans:
            h = copy.deepcopy(bases[bi])
            h["calls"] = h["calls"][:j + 1]
            h["calls"][j]["fault"] = {"seam": seam, "k": k}
            h["calls"][j]["tmo"] = 4000
            h["calls"] += probes(j)
            h["obs"] = []
            runs.append(h)
        out = hist.run_many(runs, timeout=60)
        cached = dict(bases=bases, clean=[dict(res=r, rc=rc, err=e) for (r, rc, e) in clean], plans=plans,
                      runs=[dict(res=r, rc=rc, err=e[-600:]) for (r, rc, e) in out])
        streams.cache_put(p, cached)
    bases, plans, runs = cached["bases"], cached["plans"], cached["runs"]
    by_seam, outcomes = collections.Counter(), collections.Counter()
    bad = 0
    fired = 0
    for d in cached["clean"]:
        if d["rc"] != 0:
            bad += 1
            ctx.violation("fault-free-run-failed", "base history hung or crashed without any fault", dict(exit_code=d["rc"], stderr=d["err"][-400:], last=(d["res"][-1] if d["res"] else None)))
    for (bi, j, seam, k), d in zip(plans, runs):
        res, rc = d["res"], d["rc"]
        by_seam[seam] += 1
        call = bases[bi]["calls"][j]
        fr = res[j] if len(res) > j else None
        if fr is not None and fr.get("fired"):
            fired += 1
        verdict = None
        if rc == 3 or (fr is not None and fr["out"] == "HANG") or any(r["out"] == "HANG" for r in res):
            verdict = "hang"
        elif rc != 0:
            verdict = "crash"
        elif fr is None or len(res) < j + 1 + len(probes(j)):
            verdict = "incomplete"
        elif fr.get("held", 0) != 0 or res[j + 1].get("held", 0) != 0:
            verdict = "drive-not-released"
        outcomes[verdict or "returned"] += 1
        if verdict:
            # the known finding: faults inside the streaming read goroutine kill the process
            if verdict == "crash" and call["op"] in READ_OPS + ("writefile", "createfile", "write") and "goroutine" in d["err"] and "fs.(*File)" in d["err"] \
                    and any(f["id"] == "C10-read-goroutine" for f in ctx.findings):
                ctx.known("C10-read-goroutine", next(f["what"] for f in ctx.findings if f["id"] == "C10-read-goroutine"))
                continue
            bad += 1
            if bad <= 5:
                h = copy.deepcopy(bases[bi])
                h["calls"] = h["calls"][:j + 1]
                h["calls"][j]["fault"] = {"seam": seam, "k": k}
                ctx.violation(verdict, "%s after a fault at the %d. %s event of call %d (%s)" % (verdict, k, seam, j, call["op"]),
                              dict(history=h, fault=dict(call=j, seam=seam, k=k), then="mkdir /probe; stat /probe; chmod /zz-keep; rename /zz-dir /zz-dir2; remove /zz-keep; read /zz-keep", exit_code=rc,
                                   outcomes=[r["out"] for r in res], stderr=d["err"][-400:]))
    # witness of the known finding, replayed on every run (a finding that disappears is noted)
    wh = {"config": {"rs": 20, "cache": "file"}, "blobs": [{"seed": 1, "len": 1500}], "obs": [],
          "calls": [{"op": "initialize"}, {"op": "createfile", "name": "/f", "blob": 0}, {"op": "open", "h": "a", "name": "/f", "flags": 0},
                    {"op": "read", "h": "a", "n": 2}, {"op": "mkdir", "name": "/zz", "perm": 493, "tmo": 2500}]}
    wres, wrc, werr = hist.run_history(wh)
    if wres and wres[-1]["out"] == "HANG" and wres[-1]["i"] == 4:
        if any(f["id"] == "C10-read-goroutine" for f in ctx.findings):
            ctx.known("C10-read-goroutine", next(f["what"] for f in ctx.findings if f["id"] == "C10-read-goroutine"))
        else:
            bad += 1
            ctx.violation("hang", "a call issued while a read handle is mid-stream never returns", dict(history=wh, outcomes=[r["out"] for r in wres]))
    else:
        ctx.note("finding-not-reproduced: C10-read-goroutine witness (open; read 2; mkdir) no longer hangs: %s" % [r["out"] for r in wres])
    ctx.oblige("fault enumeration: every faulted call returned, left the drive free and a following call completed (known findings apart)", bad == 0, "%d failures" % bad)
    race_stress_C10(ctx)
    ctx.coverage.update(evaluations=len(plans), fault_points=len(plans), faults_fired=fired, by_seam=dict(by_seam), verdicts={str(k): v for k, v in outcomes.items()},
                        base_histories=len(bases), distinct_nontrivial=fired,
                        rule="fault points = (base history, call, seam, k) for every k-th event the fault-free run of that call reaches at the seams %s; non-trivial = the injected fault actually fired" % ", ".join(SEAMS),
                        samples=[dict(history=[c["op"] for c in bases[plans[i][0]]["calls"][:plans[i][1] + 1]], seam=plans[i][2], k=plans[i][3],
                                      outcomes=[r["out"] for r in runs[i]["res"]]) for i in range(0, len(plans), max(1, len(plans) // 4))][:4])


RACE_HISTORIES = [
    # a Seek/Read on a read-capable handle starts the streaming goroutine; the calls that follow on the SAME handle (write, sync, close)
    # use the drive through the write operations while that goroutine may not have finished: one client, no overlap of calls
    [{"op": "createfile", "name": "/f", "blob": 0}, {"op": "open", "h": "a", "name": "/f", "flags": 2, "perm": 0o644}, {"op": "seek", "h": "a", "whence": 0, "off": 0},
     {"op": "write", "h": "a", "blob": 1}, {"op": "sync", "h": "a"}, {"op": "write", "h": "a", "blob": 2}, {"op": "sync", "h": "a"}, {"op": "close", "h": "a"}],
    [{"op": "createfile", "name": "/f", "blob": 1}, {"op": "open", "h": "a", "name": "/f", "flags": 2, "perm": 0o644}, {"op": "read", "h": "a", "n": 4},
     {"op": "write", "h": "a", "blob": 2}, {"op": "close", "h": "a"}, {"op": "mkdir", "name": "/d", "perm": 0o755}],
    [{"op": "createfile", "name": "/f", "blob": 0}, {"op": "open", "h": "a", "name": "/f", "flags": 0, "perm": 0}, {"op": "seek", "h": "a", "whence": 0, "off": 0}, {"op": "close", "h": "a"},
     {"op": "mkdir", "name": "/d", "perm": 0o755}, {"op": "createfile", "name": "/d/g", "blob": 1}],
]


def race_stress_C10(ctx):
    """Single-client histories whose calls race with the handle's own streaming goroutine, each repeated under load (all cores busy):
    a run that dies (Go runtime 'fatal error', panic) or hangs is a violation of 'every call returns'. A supporting search: the
    proof obligation is C10_drive_manager_get / _close."""
    cached, p = streams.cache_get(ctx, "racestress")
    reps = 48 if ctx.tier == "quick" else 400
    if cached is None:
        hs = []
        for k, body in enumerate(RACE_HISTORIES):
            for cache in ("file", "memory"):
                hs.append({"config": {"rs": 20, "cache": cache}, "blobs": [{"seed": 1, "len": 0}, {"seed": 2, "len": 4}, {"seed": 3, "len": 700}], "obs": [],
                           "calls": [{"op": "initialize"}] + [dict(c, tmo=20000) for c in body]})
        hs = streams.replay_override(ctx, "history", hs)
        runs = hist.run_many([h for h in hs for _ in range(reps)], workers=32, timeout=180)
        cached = dict(hs=hs, runs=[dict(rc=rc, err=e[-1200:], outs=[x["out"] for x in r]) for (r, rc, e) in runs])
        streams.cache_put(p, cached)
    hs, runs = cached["hs"], cached["runs"]
    bad = collections.Counter()
    for i, d in enumerate(runs):
        h = hs[i // reps] if hs else None
        died = d["rc"] not in (0,) or "HANG" in d["outs"] or len(d["outs"]) < len(h["calls"])
        if died:
            key = i // reps
            bad[key] += 1
            if bad[key] == 1 and len(bad) <= 3:
                ctx.violation("crash-or-hang", "a single-client handle history died or hung in %s (1 of %d repetitions under load so far)" % ("a Go runtime fatal error" if "fatal error" in d["err"] else "exit code %s" % d["rc"], reps),
                              dict(history=h, repeat=reps, how="run the history repeatedly with all cores busy (stfsdrv run < history.json): the failure is a race with the handle's streaming goroutine", stderr=d["err"][-600:], outcomes=d["outs"]))
    ctx.oblige("race stress: %d single-client histories that leave the handle's streaming goroutine behind, %d repetitions each under load: every run completed" % (len(hs), reps),
               not bad, "%s" % dict(bad))
    ctx.coverage.update(race_stress_runs=len(runs))


RO_TIE_OBS = ["rows", "tree", "tape"]


def readonly_model_tie(ctx):
    """Correspondence for the model half of C15 (Props/C15Model.v): histories written by a writable instance, then the same drive and index
    continued by a read-only instance with filesystem-level calls of every kind; M1 is evaluated in Coq with c_readonly switched at the same
    point and compared with the implementation on outcome, all index rows, visible tree and tape length of every call."""
    cached, p = streams.cache_get(ctx, "rotie")
    if cached is None:
        quick = ctx.tier == "quick"
        rng = random.Random(ctx.seed * 211 + 5)
        hs = []
        for i in range(24 if quick else 240):
            rs = rng.choice([1, 3, 20])
            g = hist.Gen(random.Random(rng.random()), rs, alpha=hist.ALPHA[:8], max_calls=8 if quick else 16, ops_level=False)
            pre = g.history({"rs": rs, "cache": "file"}, RO_TIE_OBS)
            if not g.blobs:
                g.blobs.append({"seed": 1, "len": 10})
            names = sorted(g.files | g.dirs)[:6] + ["/nope", "/new", "/new/x"]
            ro_calls = []
            for _ in range(10 if quick else 24):
                n = rng.choice(names)
                k = rng.choice(["mkdir", "mkdirall", "createfile", "writefile", "writefile", "remove", "removeall", "rename", "chmod", "chown", "chtimes"])
                c = {"op": k, "name": n}
                if k in ("mkdir", "mkdirall", "chmod"):
                    c["perm"] = 0o700
                elif k == "createfile":
                    c["blob"] = rng.randrange(len(g.blobs))
                elif k == "writefile":
                    if g.files and rng.random() < 0.7:
                        c["name"] = rng.choice(sorted(g.files))
                    c.update(flags=rng.choice([0, 1, 2, 0o101, 0o1101, 0o2001, 0o1002, 0o302, 0o100, 0o1000]), perm=0o644, blob=rng.randrange(len(g.blobs)), flag=rng.random() < 0.5)
                elif k == "rename":
                    c["name2"] = rng.choice(names)
                elif k == "chown":
                    c.update(uid=7, gid=8)
                elif k == "chtimes":
                    c.update(atime=1000000001, mtime=1100000001)
                ro_calls.append(c)
            pre["blobs"] = g.blobs
            pre["calls"] = pre["calls"] + [{"op": "ro_switch", "flag": i % 2 == 1}] + ro_calls
            hs.append(pre)
        hs = [h for h in streams.replay_override(ctx, "history", hs, lambda h: dict(h, obs=RO_TIE_OBS)) if any(c["op"] == "ro_switch" for c in h["calls"])]
        res = hist.run_many(hs)
        defs, idx = [], []
        for k, (h, (r, rc, e)) in enumerate(zip(hs, res)):
            if rc != 0:
                continue
            t = hist.emit_ro_tie(h, r, hist.identity_of(r))
            if t:
                defs.append(t)
                idx.append(k)
        bad, okall, log = [], True, ""
        for a in range(0, len(defs), 40):
            ok, resd, lg = hist.coq_eval_list("From STFS Require Import Str Db Tape Index Ops Fs Diff.", defs[a:a + 40], "RoTie_%d_%d" % (ctx.seed, a))
            okall = okall and ok
            log += lg[-600:]
            bad += [(idx[a + i], v.strip()[:80]) for i, v in resd.items() if v.strip() != "None"]
        outs = collections.Counter()
        for h, (r, rc, e) in zip(hs, res):
            sw = next(i for i, c in enumerate(h["calls"]) if c["op"] == "ro_switch")
            for c, x in list(zip(h["calls"], r))[sw + 1:]:
                outs["%s:%s" % (c["op"], x["out"])] += 1
        cached = dict(ok=okall, bad=bad, cases=len(defs), total=len(hs), log=log[-1200:], hs=[hs[k] for k, _ in bad[:3]], outs=dict(outs),
                      crashed=[dict(history=h, exit_code=rc, stderr=e[-400:]) for h, (r, rc, e) in zip(hs, res) if rc != 0][:3])
        streams.cache_put(p, cached)
    ctx.oblige("correspondence (read-only model): M1 evaluates in Coq on the two-phase histories", cached["ok"] and cached["cases"] > 0, cached["log"])
    ctx.oblige("correspondence (read-only model): M1 with c_readonly switched on and the read-only implementation agree on outcome, index rows, visible tree and tape length of every call (%d of %d histories comparable)" % (cached["cases"], cached["total"]),
               cached["ok"] and not cached["bad"] and not cached["crashed"], json.dumps(cached["bad"][:5]))
    for (k, v), h in zip(cached["bad"][:3], cached["hs"]):
        ctx.violation("correspondence", "read-only model and implementation disagree: first difference %s (call index counted from the switch, kind 1 outcome 2 rows 3 tree 4 tape length)" % v,
                      dict(history=h, first_difference=v), found_input=False)
    for d in cached["crashed"]:
        ctx.violation("crash-or-hang", "two-phase read-only history ended with exit code %s" % d["exit_code"], d)
    ctx.coverage.update(ro_model_tie_histories=cached["cases"], ro_model_tie_outcomes=cached["outs"])


def readonly_unindexable_C15(ctx):
    """A read-only instance opened with an EMPTY index over a tape it cannot index at all (another identity under encryption or
    signatures) or can (same identity): Initialize must not write (a root is 'missing' only because nothing could be indexed),
    with and without a write backend, and must not take the process down."""
    cached, p = streams.cache_get(ctx, "rounindexable")
    if cached is None:
        hs = []
        O = ["tapesha"]
        for (enc, sig, ow) in (("age", "", False), ("", "minisign", False), ("pgp", "pgp", False), ("", "", False), ("", "", True)):
            for how in ("fresh-otherkey", "fresh", "same-index"):
                if how == "fresh-otherkey" and not (enc or sig):
                    continue
                if how == "same-index" and not ow:
                    continue
                for nowrite in (False, True):
                    # (ow: the drive manager of every instance is constructed with overwrite = true - only a WRITER may ever clear the drive)
                    hs.append({"config": {"rs": 20, "cache": "file", "enc": enc, "sig": sig, "comp": ""}, "blobs": [{"seed": 1, "len": 300}], "obs": [], "_ow": ow,
                               "calls": [{"op": "initialize"}, {"op": "mkdir", "name": "/a", "perm": 0o755}, {"op": "createfile", "name": "/a/f", "blob": 0}, {"op": "nop", "obs": O},
                                         {"op": "ro_switch", "flag": nowrite, "data": (how if how != "same-index" else "") + ("+ow" if ow else ""), "obs": O, "tmo": 20000}, {"op": "stat", "name": "/", "obs": O}, {"op": "mkdir", "name": "/x", "perm": 0o755, "obs": O},
                                         {"op": "readfile", "name": "/a/f", "obs": O}]})
        hs = [h for h in streams.replay_override(ctx, "history", hs) if any(c["op"] == "ro_switch" and c.get("data") for c in h["calls"])]
        res = hist.run_many(hs, timeout=300)
        cached = [dict(h=h, res=r, rc=rc, err=e[-600:]) for h, (r, rc, e) in zip(hs, res)]
        streams.cache_put(p, cached)
    bad = 0
    outs = collections.Counter()
    for d in cached:
        h, res = d["h"], d["res"]
        sw = next(i for i, c in enumerate(h["calls"]) if c["op"] == "ro_switch")
        how = h["calls"][sw].get("data")
        if d["rc"] != 0 or len(res) < len(h["calls"]):
            bad += 1
            ctx.violation("crash-or-hang", "opening a read-only instance with an empty index (%s, write backend %s) ended with exit code %s" % (how, "absent" if h["calls"][sw].get("flag") else "present", d["rc"]),
                          dict(history=h, stderr=d["err"], outcomes=[r["out"] for r in res]))
            continue
        if any(r["out"] != "ok" for r in res[:sw]):
            bad += 1
            ctx.violation("setup-failed", "the writable instance that prepares the tape failed", dict(history=h, outcomes=[r["out"] for r in res]))
            continue
        ref = res[sw - 1]["obs"].get("tape_sha")
        outs["%s:%s" % (how, res[sw]["out"])] += 1
        for i in range(sw, len(res)):
            if (res[i].get("obs") or {}).get("tape_sha") != ref:
                bad += 1
                ctx.violation("readonly-tape-changed", "the tape changed at call %d (%s) of a read-only instance opened with an empty index (%s)" % (i, h["calls"][i]["op"], how),
                              dict(history=dict(h, calls=h["calls"][:i + 1]), failing_call=i, outcomes=[r["out"] for r in res[:i + 1]]))
                break
    ctx.oblige("read-only oracle: a read-only instance opened with an empty index over a tape it can or cannot index (other identity) never writes and never crashes, with and without a write backend (%d runs)" % len(cached),
               bad == 0, "%d failures" % bad)
    ctx.coverage.update(ro_empty_index_runs=len(cached), ro_empty_index_outcomes=dict(outs))


def readonly_C15(ctx, proof_ok):
    """Read-only instances over pre-populated tapes: sha-256 of the drive and a full row dump before/after
    every call; every mutator must answer permission; reads must equal the writable twin's."""
    ok, out = hist.build_harness()
    ctx.oblige("harness builds against the current /repo", ok, out[-1500:])
    if not ok:
        return
    cached, p = streams.cache_get(ctx, "readonly")
    quick = ctx.tier == "quick"
    if cached is None:
        rng = random.Random(ctx.seed * 101 + 3)
        hs = []
        for i in range(12 if quick else 150):
            rs = rng.choice([1, 3, 20])
            g = hist.Gen(random.Random(rng.random()), rs, alpha=hist.ALPHA[:8], max_calls=10 if quick else 20, ops_level=False)
            pre = g.history({"rs": rs, "cache": "file"}, [])
            g.blobs.append({"seed": len(g.blobs) + 1, "len": 900})
            pre["calls"] += [{"op": "createfile", "name": "/zz-full", "blob": len(g.blobs) - 1}, {"op": "writefile", "name": "/zz-empty", "flags": 0o101, "perm": 0o644, "blob": 0}]
            g.files.add("/zz-full")
            # phase 2: switch to a read-only instance over the same drive and index, then mix every kind of call
            names = sorted(g.files | g.dirs)[:6] + ["/nope", "/new"]
            ro_calls = []
            for _ in range(14 if quick else 30):
                n = rng.choice(names)
                k = rng.choice(["mkdir", "mkdirall", "createfile", "writefile", "remove", "removeall", "rename", "chmod", "chown", "chtimes",
                                "stat", "readfile", "readdir", "hwrite", "htrunc", "symlink"])
                c = {"op": k, "name": n}
                if k in ("mkdir", "mkdirall", "chmod"):
                    c["perm"] = 0o700
                elif k == "createfile":
                    c["blob"] = 0
                elif k == "writefile":
                    c.update(flags=rng.choice([1, 2, 0o101, 0o1101, 0o2001, 0o1002, 0o302]), perm=0o644, blob=0, flag=True)
                elif k == "rename":
                    c["name2"] = rng.choice(names)
                elif k == "symlink":
                    c["name2"] = n + "-l"
                elif k == "chown":
                    c.update(uid=7, gid=8)
                elif k == "chtimes":
                    c.update(atime=1000000001, mtime=1100000001)
                elif k == "readdir":
                    c["n"] = -1
                elif k in ("hwrite", "htrunc"):
                    # a handle obtained read-only (any flag combination), then a write / truncate on it
                    fl = rng.choice([0, 1, 2, 0o1002, 0o2001, 0o102])
                    ro_calls += [{"op": "open", "h": "x", "name": n, "flags": fl, "perm": 0o644, "obs": ["force", "tapesha", "rows"]}]
                    c = {"op": "write", "h": "x", "data": "aGVsbG8="} if k == "hwrite" else {"op": "truncate", "h": "x", "off": 1}
                    ro_calls += [dict(c, obs=["force", "tapesha", "rows"]), {"op": "close", "h": "x", "obs": ["force", "tapesha", "rows"]}]
                    continue
                c["obs"] = ["tapesha", "rows"]
                ro_calls.append(c)
            if i < (2 if quick else 8):
                # exhaustive part: every OpenFile flag combination on a non-empty file, an empty file, a directory and a
                # missing name, followed by nothing / a write / a truncate / a sync on the handle, then close
                nonempty = "/zz-full"
                targets = [t for t in [nonempty, "/zz-empty", next(iter(sorted(g.dirs - {"/"})), None), "/zz-missing"] if t]
                ro_calls = []
                for tname in targets:
                    for acc in (0, 1, 2):
                        for bits in range(16):
                            fl = acc | (0o2000 if bits & 1 else 0) | (0o100 if bits & 2 else 0) | (0o200 if bits & 4 else 0) | (0o1000 if bits & 8 else 0)
                            acts = ("none", "write", "truncate", "sync") + (("readseek", "readat", "seekend") if bits in (0, 1, 8) else ())
                            for act in acts:
                                ro_calls.append({"op": "open", "h": "x", "name": tname, "flags": fl, "perm": 0o644, "obs": ["force", "tapesha", "rows"]})
                                O = ["force", "tapesha", "rows"]
                                if act == "readseek":    # advance, go back, read again, flush
                                    ro_calls += [{"op": "read", "h": "x", "n": 5, "obs": O}, {"op": "seek", "h": "x", "whence": 0, "off": 2, "obs": O}, {"op": "read", "h": "x", "n": 3, "obs": O},
                                                 {"op": "seek", "h": "x", "whence": 1, "off": -4, "obs": O}, {"op": "sync", "h": "x", "obs": O}]
                                elif act == "readat":
                                    ro_calls += [{"op": "readat", "h": "x", "n": 4, "off": 100, "obs": O}, {"op": "readat", "h": "x", "n": 4, "off": 0, "obs": O}]
                                elif act == "seekend":
                                    ro_calls += [{"op": "seek", "h": "x", "whence": 2, "off": 0, "obs": O}, {"op": "seek", "h": "x", "whence": 0, "off": 1, "obs": O}, {"op": "read", "h": "x", "n": 2, "obs": O}]
                                if act == "write":
                                    ro_calls.append({"op": "write", "h": "x", "data": "aGVsbG8=", "obs": ["force", "tapesha", "rows"]})
                                elif act == "truncate":
                                    ro_calls.append({"op": "truncate", "h": "x", "off": 0, "obs": ["force", "tapesha", "rows"]})
                                elif act == "sync":
                                    ro_calls.append({"op": "sync", "h": "x", "obs": ["force", "tapesha", "rows"]})
                                ro_calls.append({"op": "close", "h": "x", "obs": ["force", "tapesha", "rows"]})
            if not g.blobs:
                g.blobs.append({"seed": 1, "len": 10})
            pre["blobs"] = g.blobs
            for nowrite in (False, True):
                h = copy.deepcopy(pre)
                h["calls"] = h["calls"] + [{"op": "nop", "obs": ["tapesha", "rows", "tree"]},
                                           {"op": "ro_switch", "flag": nowrite, "obs": ["tapesha", "rows", "tree"]}] + copy.deepcopy(ro_calls) + \
                             [{"op": "nop", "obs": ["tapesha", "rows", "tree"]}]
                hs.append(h)
        hs = [h for h in streams.replay_override(ctx, "history", hs) if any(c["op"] == "ro_switch" for c in h["calls"])]
        res = hist.run_many(hs)
        cached = [dict(h=h, res=r, rc=rc, err=e[-600:]) for h, (r, rc, e) in zip(hs, res)]
        streams.cache_put(p, cached)
    MUT = ("mkdir", "mkdirall", "createfile", "remove", "removeall", "rename", "chmod", "chown", "chtimes", "symlink", "write", "truncate")
    bad, n_calls, n_mut = 0, 0, 0
    outc = collections.Counter()
    for d in cached:
        h, res = d["h"], d["res"]
        if d["rc"] != 0:
            bad += 1
            ctx.violation("crash-or-hang", "read-only history ended with exit code %s" % d["rc"], dict(history=h, stderr=d["err"]))
            continue
        sw = next(i for i, c in enumerate(h["calls"]) if c["op"] == "ro_switch")
        base = res[sw - 1]["obs"]
        ref_sha, ref_rows = base["tape_sha"], json.dumps(base["rows"], sort_keys=True)
        if res[sw]["obs"].get("tree") is not None and base.get("tree") is not None:
            import oracles
            dd = oracles.tree_diff(base["tree"], res[sw]["obs"]["tree"])
            if dd:
                bad += 1
                ctx.violation("readonly-view-differs", "read-only instance shows a different tree than the writable twin", dict(history=h, detail=dd[:3]))
        for i in range(sw, len(res)):
            r, c = res[i], h["calls"][i]
            o = r.get("obs") or {}
            n_calls += 1
            outc[(c["op"], r["out"])] += 1
            fail = None
            if "tape_sha" in o and o["tape_sha"] != ref_sha:
                fail = "tape-changed"
            elif "rows" in o and json.dumps(o["rows"], sort_keys=True) != ref_rows:
                fail = "index-changed"
            elif c["op"] in MUT or (c["op"] == "writefile"):
                n_mut += 1
                if c["op"] == "writefile":
                    # OpenFile itself may succeed read-only (no write flag is granted); a Write on it must be refused
                    if r["out"] not in ("perm", "notexist", "isdir", "invalid"):
                        fail = "mutator-not-refused"
                elif c["op"] in ("write", "truncate"):
                    if r["out"] not in ("perm", "isdir") and r.get("err") != "no handle":
                        fail = "mutator-not-refused"
                elif r["out"] != "perm" and not (r["out"] == "invalid" and c.get("name", "x") == ""):
                    fail = "mutator-not-refused"
            if fail:
                bad += 1
                if bad <= 5:
                    ctx.violation(fail, "%s at call %d (%s -> %s) on a read-only instance" % (fail, i, c["op"], r["out"]),
                                  dict(history=dict(config=h["config"], blobs=h["blobs"], calls=h["calls"][:i + 1]), failing_call=i, outcome=r["out"]))
                break
    ctx.oblige("read-only oracle: tape bytes and index rows unchanged after every call, mutators answer permission, view equals the writable twin", bad == 0, "%d failures" % bad)
    ctx.coverage.update(evaluations=n_calls, mutator_calls=n_mut, histories=len(cached), distinct_nontrivial=len(outc),
                        rule="pre-populated tape from a generated history, then a read-only instance (with and without write backend) receives a mix of all mutating and reading calls incl. OpenFile with every flag combination and writes/truncates on the handles; distinct = (op, outcome) pairs seen; non-trivial = all (the tape is never empty)",
                        outcome_histogram={"%s:%s" % k: v for k, v in outc.items()},
                        samples=[dict(calls=[c["op"] for c in cached[0]["h"]["calls"]][-12:], outcomes=[r["out"] for r in cached[0]["res"]][-12:])] if cached else [])
