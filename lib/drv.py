"""Implementation-side runs (stfsdrv): correspondence and oracles."""
from vlib import *


def faults_C10(ctx, proof_ok):
    ctx.note("fault-enumeration harness not wired yet")


def readonly_C15(ctx, proof_ok):
    ctx.note("read-only oracle harness not wired yet")
