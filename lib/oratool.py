"""python3 lib/oratool.py <seed> [tier]: run the FS stream and print oracle failures (debug)."""
import sys, os, json, collections
sys.path.insert(0, os.path.dirname(os.path.abspath(__file__)))
import hist, streams, oracles
from vlib import *
class C: pass
ctx = C(); ctx.seed = int(sys.argv[1]); ctx.tier = sys.argv[2] if len(sys.argv) > 2 else "quick"
data = streams.fs_stream(ctx)
ref = streams.ref_stream(ctx, data)
print("histories", len(data), "calls", sum(len(d["res"]) for d in data), "nonzero rc", [(i, d["rc"]) for i, d in enumerate(data) if d["rc"] != 0][:10])
tot = collections.Counter()
ex = {}
for k, (d, rf) in enumerate(zip(data, ref)):
    h, res = d["h"], d["res"]
    for name, fn in (("C01", oracles.c01), ("C04", oracles.c04), ("C05", oracles.c05), ("C12", oracles.c12), ("C13", oracles.c13)):
        for f in fn(h, res):
            tot[(name, f["kind"])] += 1
            ex.setdefault((name, f["kind"]), (k, f))
    for f in oracles.c02(h, res, rf):
        key = ("C02", f["kind"], str(f["detail"][:3])[:90])
        tot[key] += 1
        ex.setdefault(key, (k, f))
for key, n in sorted(tot.items()):
    k, f = ex[key]
    print(n, key, "e.g. history", k, "call", f["i"], str(f["detail"])[:300])
    if os.environ.get("SHOW"):
        h = data[k]["h"]
        for j, c in enumerate(h["calls"][:f["i"] + 1]):
            print("      ", j, {a: b for a, b in c.items() if a not in ("files",)}, [x["path"] for x in c.get("files", [])], "->", data[k]["res"][j]["out"])
