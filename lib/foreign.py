"""C17 stream: tar archives written by archive/tar (ustar/PAX/GNU; root styles ./ / top/), opened through
cache.NewCacheFilesystem(stfs, root, none), walked, read, stat-ed under alternative spellings, extended, rebuilt."""
import collections, json, random, subprocess
from concurrent.futures import ThreadPoolExecutor
import hist, streams, oracles
from vlib import *

STYLES = ["./", "/", "top/", "a b/", "T/"]
FORMATS = ["ustar", "pax", "gnu"]
COMPS = ["d", "e", "f1", "a_", "A", "a b", ".x", "é", "x.gz", "m" * 60, "L" * 120]


def gen_tree(rng, fmt, deep):
    entries = [{"path": "", "dir": True, "mode": 0o755}]
    dirs = [""]
    blobs = []
    n = rng.randint(2, 6 if not deep else 14)
    used = set()
    for _ in range(n):
        d = rng.choice(dirs)
        c = rng.choice(COMPS)
        if fmt == "ustar" and (len(c) > 90 or any(ord(x) > 127 for x in c)):
            c = "u" * 40
        p = (d + "/" + c) if d else c
        if p in used or p.count("/") > 3:
            continue
        used.add(p)
        if rng.random() < 0.4:
            entries.append({"path": p, "dir": True, "mode": rng.choice([0o755, 0o700])})
            dirs.append(p)
        else:
            blobs.append({"seed": len(blobs) + 1, "len": rng.choice([0, 1, 511, 512, 513, 700, 3000])})
            entries.append({"path": p, "dir": False, "blob": len(blobs) - 1, "mode": rng.choice([0o644, 0o600])})
    return entries, blobs


def foreign_job(rng, deep=False):
    fmt = rng.choice(FORMATS)
    style = rng.choice(STYLES)
    entries, blobs = gen_tree(rng, fmt, deep)
    blobs.append({"seed": len(blobs) + 1, "len": 321})
    files = [e["path"] for e in entries if e["path"]]
    spell = rng.sample(files, min(len(files), 3))
    after = [{"op": "mkdir", "name": "/zz-new", "perm": 0o755}, {"op": "createfile", "name": "/zz-new/x", "blob": len(blobs) - 1},
             {"op": "mkdirall", "name": rng.choice(["/zz-new/m/n", "zz-new/m/n", "./zz-new/m/n"]), "perm": 0o755}, {"op": "mkdirall", "name": "/zz-new", "perm": 0o755},
             {"op": "createfile", "name": "/zz-new/m/n/deep", "blob": len(blobs) - 1}]
    fl = [e["path"] for e in entries if not e["dir"]]
    if fl:
        after.append({"op": "rename", "name": "/" + fl[0], "name2": "/zz-new/moved"})
    # metadata of original members changed through the filesystem (their tape headers carry no STFS records)
    for n_ in fl[1:3]:
        after.append(rng.choice([{"op": "chmod", "name": "/" + n_, "perm": 0o600}, {"op": "chown", "name": "/" + n_, "uid": 7, "gid": 8},
                                 {"op": "chtimes", "name": "/" + n_, "atime": 1000000001, "mtime": 1100000001}]))
    # the archive's own directories: move one with everything below it, remove an empty one, remove one recursively
    dl = [e["path"] for e in entries if e["dir"] and e["path"] and "/" not in e["path"]]
    moved_file = fl[0] if fl else None
    kids = lambda d: [e["path"] for e in entries if e["path"].startswith(d + "/") and e["path"] != moved_file]
    if dl:
        after.append({"op": "rename", "name": "/" + dl[0], "name2": "/zz-new/dirmoved"})
    empties = [x for x in dl[1:] if not kids(x)]
    if empties:
        after.append({"op": "remove", "name": "/" + empties[0]})
    rest = [x for x in dl[1:] if x not in empties[:1]]
    if rest:
        after.append({"op": "removeall", "name": "/" + rest[0]})
    job = {"config": {"rs": rng.choice([1, 3, 20]), "cache": "file"}, "blobs": blobs, "format": fmt, "style": style, "entries": entries, "spell": spell, "after": after}
    # an original member removed and created again, and a new directory removed and made again, each under one of the
    # equivalent spellings of its path (the index keeps the removed row: the re-creation has to find it whatever the spelling)
    left = sorted(p for p, v in apply_after(expected_tree(job), job).items() if v[0] == "f" and not p.startswith("/zz-new"))
    if left:
        f = rng.choice(left)
        sp = rng.choice(["/%s", "%s", "./%s"]) % f.lstrip("/")
        after += [{"op": "remove", "name": f}, {"op": "createfile", "name": sp, "blob": len(blobs) - 1}]
    sp = rng.choice(["/%s", "%s", "./%s"]) % "zz-new/sub"
    after += [{"op": "mkdir", "name": "/zz-new/sub", "perm": 0o755}, {"op": "remove", "name": "/zz-new/sub"}, {"op": "mkdir", "name": sp, "perm": 0o700}]
    return job


def run_job(j):
    p = subprocess.run([hist.STFSDRV, "foreign"], input=json.dumps(j), stdout=subprocess.PIPE, stderr=subprocess.PIPE, text=True, timeout=120,
                       env=dict(ENV, VERIF_SCRATCH=hist.scratch_dir()))
    return [json.loads(l) for l in p.stdout.splitlines() if l.startswith("{")], p.returncode, p.stderr[-800:]


def foreign_stream(ctx):
    data, p = streams.cache_get(ctx, "foreign")
    if data is not None:
        return data
    ok, out = hist.build_harness()
    if not ok:
        raise RuntimeError(out[-1500:])
    quick = ctx.tier == "quick"
    rng = random.Random(ctx.seed * 419 + 6)
    jobs = []
    # every format x style once with a fixed small tree, then random ones
    for fmt in FORMATS:
        for style in STYLES:
            rr = random.Random(7)
            j = None
            while j is None or j["format"] != fmt:
                j = foreign_job(rr)
            j["style"] = style
            jobs.append(j)
    for i in range(30 if quick else 400):
        jobs.append(foreign_job(random.Random(rng.random()), deep=(i % 4 == 0)))
    jobs = [x for x in streams.replay_override(ctx, "job", jobs) if "format" in x]
    with ThreadPoolExecutor(max_workers=12) as ex:
        res = list(ex.map(run_job, jobs))
    data = [dict(job=j, out=o, rc=rc, err=e) for j, (o, rc, e) in zip(jobs, res)]
    streams.cache_put(p, data)
    return data


def expected_tree(job, extra=()):
    blobs = job["blobs"]
    exp = {}
    for e in job["entries"]:
        if e["path"] == "":
            continue
        exp["/" + e["path"]] = ("d", 0) if e["dir"] else ("f", blobs[e["blob"]]["len"], ((blobs[e["blob"]]["seed"], 0, blobs[e["blob"]]["len"]),) if blobs[e["blob"]]["len"] else ())
    return exp


def apply_after(exp, job):
    """the expected tree after the job's further calls (all of them are expected to succeed)"""
    exp = dict(exp)
    bl = job["blobs"]
    for c in job["after"]:
        n = oracles.absname(c["name"])
        if c["op"] == "mkdirall":
            parts = [x for x in n.split("/") if x]
            for i in range(1, len(parts) + 1):
                exp.setdefault("/" + "/".join(parts[:i]), ("d", 0))
        elif c["op"] == "mkdir":
            exp[n] = ("d", 0)
        elif c["op"] == "createfile":
            b = bl[c["blob"]]
            exp[n] = ("f", b["len"], ((b["seed"], 0, b["len"]),) if b["len"] else ())
        elif c["op"] == "rename":
            m = c["name2"]
            for p in [p for p in exp if p == n or p.startswith(n + "/")]:
                exp[m + p[len(n):]] = exp.pop(p)
        elif c["op"] in ("remove", "removeall"):
            for p in [p for p in exp if p == n or p.startswith(n + "/")]:
                exp.pop(p)
    return exp


def seen_tree(tree):
    out = {}
    for e in tree:
        if e["kind"] == "d":
            out[e["path"]] = ("d", 0)
        else:
            out[e["path"]] = ("f", e.get("len", -1), oracles.norm_pieces(e.get("pieces"))) if not e.get("err") else ("f-err", e["err"])
    return out


def c17_oracle(d):
    fails = []
    job, out = d["job"], d["out"]
    steps = {r.get("step"): r for r in out}
    if d["rc"] != 0 or any(r.get("hang") or r.get("panic") or r.get("fatal") for r in out):
        return [dict(kind="crash-or-hang-or-unwritable", detail=[d["err"][-200:], [r for r in out if r.get("hang") or r.get("panic") or r.get("fatal")]])]
    op = steps.get("open")
    if not op or op.get("init") != "ok":
        return [dict(kind="foreign-archive-does-not-open", detail=[op and op.get("err")])]
    if op.get("tape_after") != op.get("tape_before"):
        fails.append(dict(kind="opening-a-foreign-archive-appended", detail=[op.get("tape_before"), op.get("tape_after")]))
    wk = steps.get("walk")
    exp = expected_tree(job)
    if wk is None:
        return fails + [dict(kind="no-walk", detail=[])]
    got = seen_tree(wk["tree"])
    if got != exp:
        diff = [(p, exp.get(p), got.get(p)) for p in sorted(set(exp) | set(got)) if exp.get(p) != got.get(p)]
        fails.append(dict(kind="members-not-listed-or-not-byte-identical", detail=diff[:3]))
    for stp in ("walk", "after", "rebuild"):
        for e in (steps.get(stp) or {}).get("tree") or []:
            if e.get("kind") == "f" and not e.get("err") and e.get("size") != e.get("len"):
                fails.append(dict(kind="stat-size-differs-from-content-length", detail=[stp, e["path"], e.get("size"), e.get("len")]))
                break
    for e in wk["tree"]:
        if e.get("lstat"):
            fails.append(dict(kind="listing-disagrees-with-stat", detail=[e["path"], e["lstat"]]))
            break
    sp = steps.get("spell")
    if sp:
        bad = [(s["path"], s["spelling"], s["out"]) for s in sp["spell"] if s["out"] != "ok"]
        if bad:
            fails.append(dict(kind="equivalent-spelling-does-not-resolve", detail=bad[:3]))
    af = steps.get("after")
    if af:
        if any(not o.startswith("ok") for o in af["outs"]):
            fails.append(dict(kind="call-after-opening-failed", detail=af["outs"]))
        else:
            got2 = seen_tree(af["tree"])
            rb = steps.get("rebuild")
            if rb is None or rb.get("init") != "ok":
                fails.append(dict(kind="rebuild-after-extension-failed", detail=[rb and rb.get("err")]))
            elif seen_tree(rb["tree"]) != got2:
                g3 = seen_tree(rb["tree"])
                diff = [(p, got2.get(p), g3.get(p)) for p in sorted(set(g3) | set(got2)) if g3.get(p) != got2.get(p)]
                fails.append(dict(kind="extension-does-not-survive-rebuild", detail=diff[:3]))
            if "/zz-new/x" not in got2:
                fails.append(dict(kind="added-file-not-visible", detail=sorted(got2)[:6]))
            exp2 = apply_after(exp, job)
            if got2 != exp2:
                diff = [(p, exp2.get(p), got2.get(p)) for p in sorted(set(exp2) | set(got2)) if exp2.get(p) != got2.get(p)]
                fails.append(dict(kind="tree-after-further-calls-differs", detail=diff[:3]))
    return fails


class _Cn:
    def t(self, ns):
        if ns == 0:
            return 0
        return ns // 10**9 if ns % 10**9 == 0 else ns


def c17_tie(ctx, data):
    """rows of the index rebuilt from the foreign archive: implementation vs Model (rebuild over the member-level tape)"""
    cached, p = streams.cache_get(ctx, "foreigntie")
    if cached is not None:
        return cached
    defs, idx, defs2, idx2 = [], [], [], []
    for k, d in enumerate(data):
        steps = {r.get("step"): r for r in d["out"]}
        op = steps.get("open")
        if not op or op.get("init") != "ok" or "members" not in op:
            continue
        job = d["job"]
        mem = op["members"]
        if len(mem) != len(job["entries"]):
            continue
        items = []
        for e, m in zip(job["entries"], mem):
            b = job["blobs"][e["blob"]] if not e["dir"] else None
            data_ = "None" if e["dir"] or b["len"] == 0 else "(Some %s)" % hist.cq_content([(b["seed"], 0, b["len"])])
            items.append("TM {| m_hdr := {| h_tf := %d; h_name := %s; h_link := []; h_size := %d; h_mode := %d; h_uid := 1000; h_gid := 1000; h_uname := %s; h_gname := %s; "
                         "h_mtime := 1500000000%%Z; h_atime := 0%%Z; h_ctime := 0%%Z; h_pax := [] |}; m_hb := %d; m_data := %s; m_enc := %d |}"
                         % (53 if e["dir"] else 48, hist.cq_str(m["name"]), 0 if e["dir"] else b["len"], e["mode"], hist.cq_str("u"), hist.cq_str("g"),
                            m["hb"], data_, 0 if e["dir"] else b["len"]))
        items.append("TT")
        cfg = "{| c_rs := %d; c_csuf := []; c_esuf := []; c_readonly := false; c_uid := 0; c_gid := 0; c_uname := []; c_gname := [] |}" % job["config"]["rs"]
        rows = hist.cq_list([hist.cq_row(x, _Cn()) for x in op["rows"]])
        defs.append("eqb_list eqb_row (rows (fst (rebuild %s %s))) %s" % (cfg, hist.cq_list(items), rows))
        idx.append(k)
        # the further calls on the opened archive (style ./ and /; names as the calls spell them), evaluated on M1 from the rebuilt
        # index: every row of the index afterwards, projected on what does not depend on the clock or on header block counts
        af = steps.get("after")
        if af and af.get("rows") is not None and job["style"] in ("./", "/") and all(o.startswith("ok") for o in af["outs"]):
            calls = [hist.cq_call(job, c, -(i + 1)) for i, c in enumerate(job["after"])]
            hterm = hist.cq_list(["(%s, {| ev_hb := []; ev_enc := []; ev_now := %s |})" % (c, hist.cq_Z(-(i + 1))) for i, c in enumerate(calls)])
            proj = hist.cq_list(["(%s, %d%%N, %d%%N, %d%%N, %d%%N, %d%%N, %s)" % (hist.cq_str(x["name"]), x["tf"], x["size"], x["mode"], x["uid"], x["gid"], hist.cq_bool(bool(x.get("del", x.get("deleted", 0))))) for x in af["rows"]])
            defs2.append("(let c := %s in let t := %s in let s0 := {| tp := t; db := fst (rebuild c t); hbq := []; encq := []; clk := 0%%Z |} in\n"
                         "  let s1 := fst (fs_initialize c s0 %s) in let s2 := final c s1 %s in\n"
                         "  eqb_list (fun a b => let '(n, tf, sz, md, u, g, d) := a in let '(n', tf', sz', md', u', g', d') := b in eqb_str n n' && (tf =? tf')%%N && (sz =? sz')%%N && (md =? md')%%N && (u =? u')%%N && (g =? g')%%N && Bool.eqb d d')\n"
                         "    (map (fun r => (r_name r, r_tf r, r_size r, r_mode r, r_uid r, r_gid r, r_del r)) (rows (db s2))) %s)"
                         % (cfg, hist.cq_list(items), hist.cq_str("/"), hterm, proj))
            idx2.append(k)
    bad, okall, log = [], True, ""
    for a in range(0, len(defs), 60):
        ok, resd, lg = hist.coq_eval_list("From STFS Require Import Str Db Tape Index Ops Fs Diff.", defs[a:a + 60], "Foreign_%d_%d" % (ctx.seed, a))
        okall = okall and ok
        log += lg[-600:]
        bad += [idx[a + i] for i, v in resd.items() if v.strip() != "true"]
    bad2 = []
    for a in range(0, len(defs2), 40):
        ok, resd, lg = hist.coq_eval_list("From STFS Require Import Str Db Tape Index Ops Fs Diff.\nOpen Scope N_scope.", defs2[a:a + 40], "ForeignAfter_%d_%d" % (ctx.seed, a))
        okall = okall and ok
        log += lg[-600:]
        bad2 += [idx2[a + i] for i, v in resd.items() if v.strip() != "true"]
    cached = dict(ok=okall, bad=bad, bad_after=bad2, cases=len(defs), cases_after=len(defs2), log=log[-1200:])
    streams.cache_put(p, cached)
    return cached
